"""Reference encodings of RV32 I/M/A/Zicsr/Zifencei and RV32C, transcribed from the
field diagrams of the RISC-V unprivileged ISA manual (v20191213: ch. 24 "RV32/64G
Instruction Set Listings" and ch. 16.8 "RVC Instruction Set Listings"), plus the
documented operand sets (DESIGN.md appendix A).

Every encoding is given as its field diagram, most significant field first:
    '0100000 rs2:5 rs1:5 101 rd:5 0110011'
    'imm[12|10:5] rs2:5 rs1:5 000 imm[4:1|11] 1100011'
A word is built with Concat/Extract from that diagram - no shifts and masks - so it
shares no code shape with bronzebeard/asm.py.

Operands are given in bronzebeard's documented order (docs/instruction_reference.rst).
"""
import re
import z3

from symx import core
from symx.core import SymInt, SymBool, And, Or, Not


# ---------------------------------------------------------------------------
# diagram -> bit-vector
# ---------------------------------------------------------------------------
def _bv(x, w):
    if isinstance(x, SymInt):
        return x.bv(w)
    if isinstance(x, z3.BitVecRef):
        return core._sx(x, w)
    return z3.BitVecVal(x, w)


_TOK = re.compile(r"^(?:(?P<const>[01]+)|(?P<name>[a-z_0-9]+)(?P<prime>')?(?::(?P<w>\d+)|\[(?P<sl>[0-9:|]+)\]))$")


def build(diagram, ops):
    """ops: name -> int | SymInt.  Returns z3 bit-vector (16 or 32 bits)."""
    parts = []
    for tok in diagram.split():
        m = _TOK.match(tok)
        if m is None:
            raise ValueError('bad diagram token %r' % tok)
        if m.group('const'):
            s = m.group('const')
            parts.append(z3.BitVecVal(int(s, 2), len(s)))
            continue
        v = ops[m.group('name')]
        if m.group('prime'):
            v = v - 8
        if m.group('w'):
            w = int(m.group('w'))
            parts.append(z3.Extract(w - 1, 0, _bv(v, 72)))
        else:
            full = _bv(v, 72)
            for sl in m.group('sl').split('|'):
                if ':' in sl:
                    hi, lo = map(int, sl.split(':'))
                else:
                    hi = lo = int(sl)
                parts.append(z3.Extract(hi, lo, full))
    word = z3.Concat(*parts) if len(parts) > 1 else parts[0]
    assert word.size() in (16, 32), (diagram, word.size())
    return word


def diagram_fields(diagram):
    """[(kind, name, prime, slices|width|bits, position_lsb)] for decoding"""
    out = []
    toks = diagram.split()
    widths = []
    for tok in toks:
        m = _TOK.match(tok)
        if m.group('const'):
            widths.append([('const', m.group('const'), len(m.group('const')))])
        elif m.group('w'):
            widths.append([('reg', m.group('name'), bool(m.group('prime')), int(m.group('w')))])
        else:
            f = []
            for sl in m.group('sl').split('|'):
                if ':' in sl:
                    hi, lo = map(int, sl.split(':'))
                else:
                    hi = lo = int(sl)
                f.append(('imm', m.group('name'), hi, lo))
            widths.append(f)
    total = 0
    flat = [x for f in widths for x in f]
    for x in flat:
        total += x[2] if x[0] == 'const' else (x[3] if x[0] == 'reg' else x[2] - x[3] + 1)
    pos = total
    for x in flat:
        n = x[2] if x[0] == 'const' else (x[3] if x[0] == 'reg' else x[2] - x[3] + 1)
        pos -= n
        out.append(x + (pos,))
    return out, total


# ---------------------------------------------------------------------------
# operand-set helpers
# ---------------------------------------------------------------------------
def rng(v, lo, hi):
    return And(v >= lo, v <= hi)


def reg(v):
    return rng(v, 0, 31)


def regc(v):
    return rng(v, 8, 15)


def regnz(v):
    return rng(v, 1, 31)


def mult(v, k):
    return (v % k) == 0


class Insn:
    def __init__(self, name, diagram, operands, legal, dontcare=None, canon=None, cls=None):
        self.name = name
        self.diagram = diagram
        self.operands = operands        # names in bronzebeard API order
        self.legal = legal              # f(**ops) -> SymBool|bool : MUST be accepted
        self.dontcare = dontcare        # f(**ops): may be accepted or refused
        self.canon = canon              # name -> f(value) canonical field value (for one-to-one)
        self.cls = cls
        self.bits = 16 if name.startswith('c.') else 32

    def word(self, **ops):
        return build(self.diagram, ops)


T = {}


def _add(name, diagram, operands, legal, **kw):
    T[name] = Insn(name, diagram, operands.split(), legal, **kw)


# ---- RV32I -----------------------------------------------------------------
def _R(name, f7, f3, opc='0110011'):
    _add(name, '%s rs2:5 rs1:5 %s rd:5 %s' % (f7, f3, opc), 'rd rs1 rs2',
         lambda rd, rs1, rs2: And(reg(rd), reg(rs1), reg(rs2)), cls='R')


for n, f7, f3 in [('add', '0000000', '000'), ('sub', '0100000', '000'), ('sll', '0000000', '001'),
                  ('slt', '0000000', '010'), ('sltu', '0000000', '011'), ('xor', '0000000', '100'),
                  ('srl', '0000000', '101'), ('sra', '0100000', '101'), ('or', '0000000', '110'),
                  ('and', '0000000', '111'),
                  ('mul', '0000001', '000'), ('mulh', '0000001', '001'), ('mulhsu', '0000001', '010'),
                  ('mulhu', '0000001', '011'), ('div', '0000001', '100'), ('divu', '0000001', '101'),
                  ('rem', '0000001', '110'), ('remu', '0000001', '111')]:
    _R(n, f7, f3)

for n, f7, f3 in [('slli', '0000000', '001'), ('srli', '0000000', '101'), ('srai', '0100000', '101')]:
    _add(n, '%s shamt:5 rs1:5 %s rd:5 0010011' % (f7, f3), 'rd rs1 shamt',
         lambda rd, rs1, shamt: And(reg(rd), reg(rs1), rng(shamt, 0, 31)), cls='SH')

for n, f3, opc in [('addi', '000', '0010011'), ('slti', '010', '0010011'), ('sltiu', '011', '0010011'),
                   ('xori', '100', '0010011'), ('ori', '110', '0010011'), ('andi', '111', '0010011'),
                   ('lb', '000', '0000011'), ('lh', '001', '0000011'), ('lw', '010', '0000011'),
                   ('lbu', '100', '0000011'), ('lhu', '101', '0000011')]:
    _add(n, 'imm[11:0] rs1:5 %s rd:5 %s' % (f3, opc), 'rd rs1 imm',
         lambda rd, rs1, imm: And(reg(rd), reg(rs1), rng(imm, -2048, 2047)), cls='I')

_add('jalr', 'imm[11:0] rs1:5 000 rd:5 1100111', 'rd rs1 imm',
     lambda rd, rs1, imm: And(reg(rd), reg(rs1), rng(imm, -2048, 2046), mult(imm, 2)), cls='I')

for n, f3 in [('sb', '000'), ('sh', '001'), ('sw', '010')]:
    _add(n, 'imm[11:5] rs2:5 rs1:5 %s imm[4:0] 0100011' % f3, 'rs1 rs2 imm',
         lambda rs1, rs2, imm: And(reg(rs1), reg(rs2), rng(imm, -2048, 2047)), cls='S')

for n, f3 in [('beq', '000'), ('bne', '001'), ('blt', '100'), ('bge', '101'), ('bltu', '110'), ('bgeu', '111')]:
    _add(n, 'imm[12|10:5] rs2:5 rs1:5 %s imm[4:1|11] 1100011' % f3, 'rs1 rs2 imm',
         lambda rs1, rs2, imm: And(reg(rs1), reg(rs2), rng(imm, -4096, 4094), mult(imm, 2)), cls='B')

for n, opc in [('lui', '0110111'), ('auipc', '0010111')]:
    _add(n, 'imm[19:0] rd:5 %s' % opc, 'rd imm',
         lambda rd, imm: And(reg(rd), rng(imm, -524288, 1048575)), cls='U',
         canon={'imm': lambda v: v % (1 << 20)})

_add('jal', 'imm[20|10:1|11|19:12] rd:5 1101111', 'rd imm',
     lambda rd, imm: And(reg(rd), rng(imm, -1048576, 1048574), mult(imm, 2)), cls='J')

# fence: fm=0000 pred succ rs1=0 000 rd=0 0001111 ; bronzebeard operand order: succ, pred
_add('fence', '0000 pred:4 succ:4 00000 000 00000 0001111', 'succ pred',
     lambda succ, pred: And(rng(succ, 0, 15), rng(pred, 0, 15)), cls='FENCE')
_add('ecall', '000000000000 00000 000 00000 1110011', '', lambda: True, cls='IE')
_add('ebreak', '000000000001 00000 000 00000 1110011', '', lambda: True, cls='IE')
_add('fence.i', '000000000000 00000 001 00000 0001111', '', lambda: True, cls='IE')

# Zicsr.  The csr operand is taken as the signed 12-bit I-immediate; 0x800..0xfff is a
# don't-care band (DESIGN.md 4.3): if accepted it must encode that CSR number.
for n, f3 in [('csrrw', '001'), ('csrrs', '010'), ('csrrc', '011')]:
    _add(n, 'csr[11:0] rs1:5 %s rd:5 1110011' % f3, 'rd rs1 csr',
         lambda rd, rs1, csr: And(reg(rd), reg(rs1), rng(csr, -2048, 2047)),
         dontcare=lambda rd, rs1, csr: And(reg(rd), reg(rs1), rng(csr, 2048, 4095)), cls='CSR',
         canon={'csr': lambda v: v % 4096})
for n, f3 in [('csrrwi', '101'), ('csrrsi', '110'), ('csrrci', '111')]:
    _add(n, 'csr[11:0] uimm:5 %s rd:5 1110011' % f3, 'rd uimm csr',
         lambda rd, uimm, csr: And(reg(rd), rng(uimm, 0, 31), rng(csr, -2048, 2047)),
         dontcare=lambda rd, uimm, csr: And(reg(rd), rng(uimm, 0, 31), rng(csr, 2048, 4095)), cls='CSR',
         canon={'csr': lambda v: v % 4096})

# RV32A: funct5 aq rl rs2 rs1 010 rd 0101111
for n, f5 in [('sc.w', '00011'), ('amoswap.w', '00001'), ('amoadd.w', '00000'), ('amoxor.w', '00100'),
              ('amoand.w', '01100'), ('amoor.w', '01000'), ('amomin.w', '10000'), ('amomax.w', '10100'),
              ('amominu.w', '11000'), ('amomaxu.w', '11100')]:
    _add(n, '%s aq:1 rl:1 rs2:5 rs1:5 010 rd:5 0101111' % f5, 'rd rs1 rs2 aq rl',
         lambda rd, rs1, rs2, aq, rl: And(reg(rd), reg(rs1), reg(rs2), rng(aq, 0, 1), rng(rl, 0, 1)), cls='A')
_add('lr.w', '00010 aq:1 rl:1 00000 rs1:5 010 rd:5 0101111', 'rd rs1 aq rl',
     lambda rd, rs1, aq, rl: And(reg(rd), reg(rs1), rng(aq, 0, 1), rng(rl, 0, 1)), cls='AL')

# ---- RV32C (ch. 16.8).  Legal = valid, non-hint, non-reserved on RV32 -------
_add('c.addi4spn', "000 imm[5:4|9:6|2|3] rd':3 00", 'rd imm',
     lambda rd, imm: And(regc(rd), rng(imm, 4, 1020), mult(imm, 4)))
_add('c.lw', "010 imm[5:3] rs1':3 imm[2|6] rd':3 00", 'rd rs1 imm',
     lambda rd, rs1, imm: And(regc(rd), regc(rs1), rng(imm, 0, 124), mult(imm, 4)))
_add('c.sw', "110 imm[5:3] rs1':3 imm[2|6] rs2':3 00", 'rs1 rs2 imm',
     lambda rs1, rs2, imm: And(regc(rs1), regc(rs2), rng(imm, 0, 124), mult(imm, 4)))
_add('c.nop', '000 0 00000 00000 01', '', lambda: True)
_add('c.addi', '000 imm[5] rd:5 imm[4:0] 01', 'rd imm',
     lambda rd, imm: And(regnz(rd), rng(imm, -32, 31), imm != 0))
_add('c.jal', '001 imm[11|4|9:8|10|6|7|3:1|5] 01', 'imm',
     lambda imm: And(rng(imm, -2048, 2046), mult(imm, 2)))
_add('c.li', '010 imm[5] rd:5 imm[4:0] 01', 'rd imm',
     lambda rd, imm: And(regnz(rd), rng(imm, -32, 31)))
_add('c.addi16sp', '011 imm[9] 00010 imm[4|6|8:7|5] 01', 'imm',
     lambda imm: And(rng(imm, -512, 496), mult(imm, 16), imm != 0))
# c.lui operand is the value of nzimm[17:12] as a signed 6-bit number (docs), the
# spelling 0xfffe0..0xfffff is also accepted (DESIGN.md 4.3)
_add('c.lui', '011 imm[5] rd:5 imm[4:0] 01', 'rd imm',
     lambda rd, imm: And(regnz(rd), rd != 2, Or(And(rng(imm, -32, 31), imm != 0), rng(imm, 0xfffe0, 0xfffff))),
     canon={'imm': lambda v: v % 64})
_add('c.srli', "100 0 00 rd':3 imm[4:0] 01", 'rd imm', lambda rd, imm: And(regc(rd), rng(imm, 1, 31)))
_add('c.srai', "100 0 01 rd':3 imm[4:0] 01", 'rd imm', lambda rd, imm: And(regc(rd), rng(imm, 1, 31)))
_add('c.andi', "100 imm[5] 10 rd':3 imm[4:0] 01", 'rd imm', lambda rd, imm: And(regc(rd), rng(imm, -32, 31)))
for n, f2 in [('c.sub', '00'), ('c.xor', '01'), ('c.or', '10'), ('c.and', '11')]:
    _add(n, "100 0 11 rd':3 %s rs2':3 01" % f2, 'rd rs2', lambda rd, rs2: And(regc(rd), regc(rs2)))
_add('c.j', '101 imm[11|4|9:8|10|6|7|3:1|5] 01', 'imm',
     lambda imm: And(rng(imm, -2048, 2046), mult(imm, 2)))
for n, f3 in [('c.beqz', '110'), ('c.bnez', '111')]:
    _add(n, "%s imm[8|4:3] rs1':3 imm[7:6|2:1|5] 01" % f3, 'rs1 imm',
         lambda rs1, imm: And(regc(rs1), rng(imm, -256, 254), mult(imm, 2)))
_add('c.slli', '000 0 rd:5 imm[4:0] 10', 'rd imm', lambda rd, imm: And(regnz(rd), rng(imm, 1, 31)))
_add('c.lwsp', '010 imm[5] rd:5 imm[4:2|7:6] 10', 'rd imm',
     lambda rd, imm: And(regnz(rd), rng(imm, 0, 252), mult(imm, 4)))
_add('c.jr', '100 0 rs1:5 00000 10', 'rs1', lambda rs1: regnz(rs1))
_add('c.mv', '100 0 rd:5 rs2:5 10', 'rd rs2', lambda rd, rs2: And(regnz(rd), regnz(rs2)))
_add('c.ebreak', '100 1 00000 00000 10', '', lambda: True)
_add('c.jalr', '100 1 rs1:5 00000 10', 'rs1', lambda rs1: regnz(rs1))
_add('c.add', '100 1 rd:5 rs2:5 10', 'rd rs2', lambda rd, rs2: And(regnz(rd), regnz(rs2)))
_add('c.swsp', '110 imm[5:2|7:6] rs2:5 10', 'rs2 imm',
     lambda rs2, imm: And(reg(rs2), rng(imm, 0, 252), mult(imm, 4)))

BASE = [n for n in T if not n.startswith('c.')]
RVC = [n for n in T if n.startswith('c.')]
assert len(BASE) == 66 and len(RVC) == 27, (len(BASE), len(RVC))

# immediates that are signed / unsigned in the RVC diagrams (for the reverse direction)
RVC_SIGNED_IMM = {'c.addi', 'c.jal', 'c.li', 'c.addi16sp', 'c.lui', 'c.andi', 'c.j', 'c.beqz', 'c.bnez'}


def decode_fields(name, h):
    """operands named by halfword/word ``h`` (z3 bit-vector) when read as an
    instance of T[name]'s diagram; also the condition that the constant fields match.
    Returns (match: z3 Bool, ops: name -> SymInt)"""
    insn = T[name]
    fields, total = diagram_fields(insn.diagram)
    assert total == h.size()
    conds = []
    regs = {}
    immbits = {}
    for f in fields:
        pos = f[-1]
        if f[0] == 'const':
            n = f[2]
            conds.append(z3.Extract(pos + n - 1, pos, h) == z3.BitVecVal(int(f[1], 2), n))
        elif f[0] == 'reg':
            _, nm, prime, w, _ = f
            v = core.from_bv_unsigned(z3.Extract(pos + w - 1, pos, h))
            regs[nm] = v + 8 if prime else v
        else:
            _, nm, hi, lo, _ = f
            for k in range(lo, hi + 1):
                immbits.setdefault(nm, {})[k] = z3.Extract(pos + (k - lo), pos + (k - lo), h)
    ops = dict(regs)
    for nm, bits in immbits.items():
        top = max(bits)
        vec = [bits.get(k, z3.BitVecVal(0, 1)) for k in range(top, -1, -1)]
        e = z3.Concat(*vec) if len(vec) > 1 else vec[0]
        signed = (insn.bits == 32 and insn.cls in ('I', 'S', 'B', 'J')) or name in RVC_SIGNED_IMM
        ops[nm] = core.from_bv_signed(e) if signed else core.from_bv_unsigned(e)
    return z3.And(*conds) if conds else z3.BoolVal(True), ops

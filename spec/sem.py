"""RV32 single-step reference semantics and the RVC -> RV32 expansion (oracles 4.2 / 4.4).

Written from the unprivileged ISA manual (ch. 2 RV32I, ch. 16 "C").  Everything is a z3
expression over a symbolic instruction word, register file (Array BV5 -> BV32) and pc.
Instructions that neither compression nor pseudo-instructions can produce (M, A, Zicsr,
fence, ecall) are 'opaque': their effect is identified with the word itself.
"""
import z3

from symx import core
from symx.core import SymInt, SymBool
from . import isa

BV = z3.BitVecVal


def X(w, hi, lo):
    return z3.Extract(hi, lo, w)


def sext(e, n=32):
    return z3.SignExt(n - e.size(), e)


def zext(e, n=32):
    return z3.ZeroExt(n - e.size(), e)


# ---------------------------------------------------------------------------
# RVC expansion
# ---------------------------------------------------------------------------
_EXP = {
    'c.addi4spn': ('addi', lambda o: dict(rd=o['rd'], rs1=2, imm=o['imm'])),
    'c.lw': ('lw', lambda o: dict(rd=o['rd'], rs1=o['rs1'], imm=o['imm'])),
    'c.sw': ('sw', lambda o: dict(rs1=o['rs1'], rs2=o['rs2'], imm=o['imm'])),
    'c.nop': ('addi', lambda o: dict(rd=0, rs1=0, imm=0)),
    'c.addi': ('addi', lambda o: dict(rd=o['rd'], rs1=o['rd'], imm=o['imm'])),
    'c.jal': ('jal', lambda o: dict(rd=1, imm=o['imm'])),
    'c.li': ('addi', lambda o: dict(rd=o['rd'], rs1=0, imm=o['imm'])),
    'c.addi16sp': ('addi', lambda o: dict(rd=2, rs1=2, imm=o['imm'])),
    'c.lui': ('lui', lambda o: dict(rd=o['rd'], imm=o['imm'])),
    'c.srli': ('srli', lambda o: dict(rd=o['rd'], rs1=o['rd'], shamt=o['imm'])),
    'c.srai': ('srai', lambda o: dict(rd=o['rd'], rs1=o['rd'], shamt=o['imm'])),
    'c.andi': ('andi', lambda o: dict(rd=o['rd'], rs1=o['rd'], imm=o['imm'])),
    'c.sub': ('sub', lambda o: dict(rd=o['rd'], rs1=o['rd'], rs2=o['rs2'])),
    'c.xor': ('xor', lambda o: dict(rd=o['rd'], rs1=o['rd'], rs2=o['rs2'])),
    'c.or': ('or', lambda o: dict(rd=o['rd'], rs1=o['rd'], rs2=o['rs2'])),
    'c.and': ('and', lambda o: dict(rd=o['rd'], rs1=o['rd'], rs2=o['rs2'])),
    'c.j': ('jal', lambda o: dict(rd=0, imm=o['imm'])),
    'c.beqz': ('beq', lambda o: dict(rs1=o['rs1'], rs2=0, imm=o['imm'])),
    'c.bnez': ('bne', lambda o: dict(rs1=o['rs1'], rs2=0, imm=o['imm'])),
    'c.slli': ('slli', lambda o: dict(rd=o['rd'], rs1=o['rd'], shamt=o['imm'])),
    'c.lwsp': ('lw', lambda o: dict(rd=o['rd'], rs1=2, imm=o['imm'])),
    'c.jr': ('jalr', lambda o: dict(rd=0, rs1=o['rs1'], imm=0)),
    'c.mv': ('add', lambda o: dict(rd=o['rd'], rs1=0, rs2=o['rs2'])),
    'c.ebreak': ('ebreak', lambda o: dict()),
    'c.jalr': ('jalr', lambda o: dict(rd=1, rs1=o['rs1'], imm=0)),
    'c.add': ('add', lambda o: dict(rd=o['rd'], rs1=o['rd'], rs2=o['rs2'])),
    'c.swsp': ('sw', lambda o: dict(rs1=2, rs2=o['rs2'], imm=o['imm'])),
}


def rvc_classes(h):
    """[(name, pred: z3 Bool, expansion word: z3 BV32)] for halfword h (z3 BV16)"""
    out = []
    for m in isa.RVC:
        match, ops = isa.decode_fields(m, h)
        legal = isa.T[m].legal(**ops)
        lb = legal.b if isinstance(legal, SymBool) else BV(1, 1) == BV(1 if legal else 0, 1)
        base, f = _EXP[m]
        out.append((m, z3.And(match, lb), isa.T[base].word(**f(ops))))
    return out


def legal_c(h):
    return z3.Or(*[p for _, p, _ in rvc_classes(h)])


def expand(h):
    cl = rvc_classes(h)
    w = BV(0, 32)
    for _, p, e in reversed(cl):
        w = z3.If(p, e, w)
    return w


# ---------------------------------------------------------------------------
# single step
# ---------------------------------------------------------------------------
class RegReads:
    """a read-only register file as explicit Ackermann variables: every read gets a fresh
    32-bit variable; constraints() states that equal indices read equal values"""

    def __init__(self, prefix):
        self.prefix = prefix
        self.reads = []

    def __call__(self, idx):
        idx = z3.simplify(idx)
        for i, v in self.reads:
            if i.eq(idx):
                return v
        v = z3.BitVec('%s_%d' % (self.prefix, len(self.reads)), 32)
        self.reads.append((idx, v))
        return v

    def constraints(self):
        cs = []
        for a in range(len(self.reads)):
            for b in range(a + 1, len(self.reads)):
                cs.append(z3.Implies(self.reads[a][0] == self.reads[b][0], self.reads[a][1] == self.reads[b][1]))
        return z3.And(*cs) if cs else z3.BoolVal(True)


def rd_(regs, i):
    """x0 reads 0. regs: z3 array, or an uninterpreted function / RegReads when it is only read"""
    v = regs(i) if isinstance(regs, (z3.FuncDeclRef, RegReads)) else z3.Select(regs, i)
    return z3.If(i == 0, BV(0, 32), v)


class Effect:
    """architectural effect of one instruction at address pc with length ilen"""
    FIELDS = ('valid', 'wr_en', 'wr_idx', 'wr_link', 'wr_val', 'mem_kind', 'mem_addr', 'mem_f3',
              'mem_val', 'jump', 'target', 'opaque', 'opq_word')


def step(w, regs, pc, ilen):
    """w: BV32 instruction word. Returns Effect with z3 fields."""
    w = z3.simplify(w)
    S = z3.simplify
    opc = S(X(w, 6, 0))
    rd, f3, rs1, rs2, f7 = S(X(w, 11, 7)), S(X(w, 14, 12)), S(X(w, 19, 15)), S(X(w, 24, 20)), S(X(w, 31, 25))
    immI = sext(X(w, 31, 20))
    immS = sext(z3.Concat(X(w, 31, 25), X(w, 11, 7)))
    immB = sext(z3.Concat(X(w, 31, 31), X(w, 7, 7), X(w, 30, 25), X(w, 11, 8), BV(0, 1)))
    immU = z3.Concat(X(w, 31, 12), BV(0, 12))
    immJ = sext(z3.Concat(X(w, 31, 31), X(w, 19, 12), X(w, 20, 20), X(w, 30, 21), BV(0, 1)))
    a, b = rd_(regs, rs1), rd_(regs, rs2)
    shamt = zext(X(w, 24, 20))
    bsh = zext(X(b, 4, 0))
    one, zero = BV(1, 32), BV(0, 32)

    def alu(x, y, ysh, is_imm):
        sub_sra = X(w, 30, 30) == 1
        return [
            (f3 == 0, z3.If(z3.And(z3.Not(is_imm), sub_sra), x - y, x + y)),
            (f3 == 1, x << ysh),
            (f3 == 2, z3.If(x < y, one, zero)),
            (f3 == 3, z3.If(z3.ULT(x, y), one, zero)),
            (f3 == 4, x ^ y),
            (f3 == 5, z3.If(sub_sra, x >> ysh, z3.LShR(x, ysh))),
            (f3 == 6, x | y),
            (f3 == 7, x & y),
        ]

    def pick(cases):
        r = zero
        for c, v in reversed(cases):
            r = z3.If(c, v, r)
        return r

    T, F = z3.BoolVal(True), z3.BoolVal(False)
    is_opimm = opc == 0b0010011
    is_op = opc == 0b0110011
    is_lui = opc == 0b0110111
    is_auipc = opc == 0b0010111
    is_jal = opc == 0b1101111
    is_jalr = z3.And(opc == 0b1100111, f3 == 0)
    is_br = z3.And(opc == 0b1100011, f3 != 2, f3 != 3)
    is_ld = z3.And(opc == 0b0000011, z3.Or(f3 == 0, f3 == 1, f3 == 2, f3 == 4, f3 == 5))
    is_st = z3.And(opc == 0b0100011, z3.Or(f3 == 0, f3 == 1, f3 == 2))
    opimm_ok = z3.Or(z3.And(f3 != 1, f3 != 5), z3.And(f3 == 1, f7 == 0), z3.And(f3 == 5, z3.Or(f7 == 0, f7 == 0x20)))
    op_ok = z3.Or(f7 == 0, z3.And(f7 == 0x20, z3.Or(f3 == 0, f3 == 5)))
    is_alu_i = z3.And(is_opimm, opimm_ok)
    is_alu_r = z3.And(is_op, op_ok)
    known = z3.Or(is_alu_i, is_alu_r, is_lui, is_auipc, is_jal, is_jalr, is_br, is_ld, is_st)

    e = Effect()
    e.opaque = z3.Not(known)
    e.opq_word = z3.If(e.opaque, w, zero)
    e.valid = T
    writes = z3.Or(is_alu_i, is_alu_r, is_lui, is_auipc, is_jal, is_jalr, is_ld)
    e.wr_en = z3.And(writes, rd != 0)
    e.wr_idx = z3.If(e.wr_en, rd, BV(0, 5))
    e.wr_link = z3.And(e.wr_en, z3.Or(is_jal, is_jalr))
    val = pick([
        (is_alu_i, pick(alu(a, immI, shamt, T))),
        (is_alu_r, pick(alu(a, b, bsh, F))),
        (is_lui, immU),
        (is_auipc, pc + immU),
        (z3.Or(is_jal, is_jalr), pc + BV(ilen, 32)),
    ])
    # loads write an unknown memory value: identified by the access itself
    e.wr_val = z3.If(z3.And(e.wr_en, z3.Not(is_ld), z3.Not(e.wr_link)), val, zero)
    e.link_val = pc + BV(ilen, 32)
    e.mem_kind = z3.If(is_ld, BV(1, 2), z3.If(is_st, BV(2, 2), BV(0, 2)))
    e.mem_addr = z3.If(is_ld, a + immI, z3.If(is_st, a + immS, zero))
    e.mem_f3 = z3.If(z3.Or(is_ld, is_st), f3, BV(0, 3))
    e.mem_val = z3.If(is_st, b, zero)
    e.mem_rd = z3.If(is_ld, rd, BV(0, 5))
    taken = pick([
        (f3 == 0, z3.If(a == b, one, zero)), (f3 == 1, z3.If(a != b, one, zero)),
        (f3 == 4, z3.If(a < b, one, zero)), (f3 == 5, z3.If(a >= b, one, zero)),
        (f3 == 6, z3.If(z3.ULT(a, b), one, zero)), (f3 == 7, z3.If(z3.UGE(a, b), one, zero)),
    ]) == one
    e.jump = z3.Or(is_jal, is_jalr, z3.And(is_br, taken))
    e.target = z3.If(is_jal, pc + immJ,
                     z3.If(is_jalr, (a + immI) & BV(0xfffffffe, 32),
                           z3.If(z3.And(is_br, taken), pc + immB, zero)))
    e.is_br = is_br
    e.is_jal = is_jal
    e.is_jalr = is_jalr
    e.br_target = pc + immB
    e.jal_target = pc + immJ
    # value written by non-load, non-link instructions, for execution
    e.exec_val = z3.If(e.wr_link, e.link_val, val)
    e.is_ld = is_ld
    e.is_st = is_st
    return e


def same_effect(e1, e2):
    """z3 Bool: the two instructions (executed at the same pc from the same register file,
    each with its own length) have the same architectural effect; a link value is
    'address of the next instruction' for both."""
    return z3.simplify(z3.And(
        e1.opaque == e2.opaque, e1.opq_word == e2.opq_word,
        e1.wr_en == e2.wr_en, e1.wr_idx == e2.wr_idx, e1.wr_link == e2.wr_link, e1.wr_val == e2.wr_val,
        e1.mem_kind == e2.mem_kind, e1.mem_addr == e2.mem_addr, e1.mem_f3 == e2.mem_f3,
        e1.mem_val == e2.mem_val, e1.mem_rd == e2.mem_rd,
        e1.jump == e2.jump, e1.target == e2.target))


def execute(e, regs, pc, ilen):
    """apply effect e (no memory): returns (regs', pc')"""
    regs2 = z3.If(e.wr_en, z3.Store(regs, e.wr_idx, e.exec_val), regs)
    pc2 = z3.If(e.jump, e.target, pc + BV(ilen, 32))
    return regs2, pc2


def word_of(v, nbytes):
    """BV32 instruction word for an emitted value (int | SymInt); halfwords are expanded"""
    if nbytes == 4:
        return v.bv(32) if isinstance(v, SymInt) else BV(v, 32)
    h = v.bv(16) if isinstance(v, SymInt) else BV(v, 16)
    return expand(h)

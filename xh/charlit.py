"""CrossHair contracts: character literals (C11) and string literals (C10, bug-hunting only:
the escape / UTF-8 codecs are C code that CrossHair realises)."""
import sys
from bronzebeard import asm


def _const_value(text):
    consts = {}
    item = asm.parse_item(asm.lex_tokens(text))
    asm.resolve_constants([item], consts)
    return consts['K']


def charlit(c: str) -> int:
    """
    pre: len(c) == 1 and 32 <= ord(c) <= 126 and c != chr(92)
    post: _ == ord(c)
    raises: asm.AssemblerError
    """
    return _const_value("K = '" + c + "'")


def charlit__check(c):
    try:
        return _const_value("K = '" + c + "'") == ord(c)
    except Exception:
        return False


def charlit__mustfail(c: str) -> int:
    """
    pre: len(c) == 1 and 32 <= ord(c) <= 126 and c != chr(92)
    post: _ != ord(c)
    """
    return _const_value("K = '" + c + "'")


def charlit_operand(c: str) -> bytes:
    """
    pre: len(c) == 1 and 32 <= ord(c) <= 126 and c != chr(92)
    post: _ == bytes([ord(c)])
    """
    return bytes(asm.resolve_blobs(asm.resolve_packs(asm.transform_shorthand_packs(asm.resolve_immediates(
        [asm.parse_item(asm.lex_tokens("db '" + c + "'"))], {}, {})))))


def charlit_operand__check(c):
    try:
        return bytes(asm.assemble("db '" + c + "'")) == bytes([ord(c)])
    except Exception:
        return False


def charlit_operand__mustfail(c: str) -> bytes:
    """
    pre: len(c) == 1 and 32 <= ord(c) <= 126 and c != chr(92)
    post: _ != bytes([ord(c)])
    """
    return bytes(asm.resolve_blobs(asm.resolve_packs(asm.transform_shorthand_packs(asm.resolve_immediates(
        [asm.parse_item(asm.lex_tokens("db '" + c + "'"))], {}, {})))))


def _string_bytes(s):
    item = asm.parse_item(asm.lex_tokens('string ' + s))
    return asm.resolve_strings([item])[0].data


def string_plain(s: str) -> bytes:
    """
    [bughunt]
    pre: 1 <= len(s) <= 3
    pre: chr(92) not in s and chr(10) not in s
    post: _ == s.encode('utf-8')
    """
    return _string_bytes(s)


def string_plain__check(s):
    try:
        return _string_bytes(s) == s.encode('utf-8')
    except Exception:
        return False


def string_plain__mustfail(s: str) -> bytes:
    """
    pre: 1 <= len(s) <= 3
    pre: chr(92) not in s and chr(10) not in s
    post: _ != s.encode('utf-8')
    """
    return _string_bytes(s)

#!/usr/bin/env python3
"""Entry point: python3-vt /verif/vcheck.py <Cxx> [--tier quick|thorough]
                 python3-vt /verif/vcheck.py replay <file.json>

exit 0  the property held on everything explored (KNOWN-FINDING lines possible)
exit 1  VIOLATION property=<id> replay=<path>   (counterexample reproduced on the real code)
exit 2  inconclusive / harness error (never reported as success)
"""
import argparse
import os
import sys
import time

HERE = os.path.dirname(os.path.abspath(__file__))
sys.path.insert(0, HERE)
sys.dont_write_bytecode = True


def main():
    ap = argparse.ArgumentParser()
    ap.add_argument('prop')
    ap.add_argument('arg', nargs='?')
    ap.add_argument('--tier', default=os.environ.get('VERIF_TIER', 'quick'))
    a = ap.parse_args()
    seed = int(os.environ.get('VERIF_SEED', '0') or 0)
    if a.prop == 'replay':
        from harness import replay
        return replay.main(a.arg)
    tier = a.tier if a.tier in ('quick', 'thorough') else 'quick'
    from harness import props
    fn = getattr(props, 'run_' + a.prop.upper(), None)
    if fn is None:
        print('no check for', a.prop)
        return 2
    t0 = time.time()
    return fn(tier, seed, t0)


if __name__ == '__main__':
    sys.exit(main())

"""Symbolic text: a string whose characters are code points that may be symbolic integers.

Three pieces stand in for C-level machinery of CPython when the subject is a SymStr (for an
ordinary ``str`` everything is delegated to the real implementation):

* the codecs used by ``str.encode`` / ``bytes.decode`` (latin-1, ascii, utf-8, unicode_escape and
  the ``backslashreplace`` / ``ignore`` / ``replace`` / ``surrogatepass`` handlers) are small Python
  models written from the codec documentation; every path's witness is replayed through the real
  codecs by the harness, which is what validates the models;
* ``re``: a backtracking matcher over the pattern's parse tree (``re._parser``) that asks the
  solver whether a symbolic character belongs to a class, so a match forks instead of realising;
* the ``str`` methods the assembler's lexer uses on a line.

Anything else raises EngineLimit (the check is then inconclusive, never silently wrong)."""
import re as _re
import sys

try:
    from re import _parser as _sre_parse, _constants as _sre_c
except ImportError:                                  # Python < 3.11
    import sre_parse as _sre_parse
    import sre_constants as _sre_c

from . import core
from .core import SymInt, SymBool, EngineLimit, _path
from .symbytes import SymBytes, SymByteArray, Seg

MAXCP = 0x10FFFF
#: characters str.splitlines() breaks at: they cannot occur inside one source line
LINE_BREAKS = (0x0a, 0x0b, 0x0c, 0x0d, 0x1c, 0x1d, 0x1e, 0x85, 0x2028, 0x2029)


def _sym(c):
    return isinstance(c, SymInt)


def _out(cps):
    """text for a list of code points: an ordinary str when nothing in it is symbolic"""
    if any(isinstance(c, SymInt) for c in cps):
        return SymStr(cps)
    return ''.join(chr(c) for c in cps)


class SymStr:
    """immutable text: list of code points (int | SymInt)"""

    def __init__(self, cps=()):
        if isinstance(cps, str):
            cps = [ord(ch) for ch in cps]
        self.cps = list(cps)

    # -- construction -------------------------------------------------------
    @staticmethod
    def of(x):
        if isinstance(x, SymStr):
            return x
        if isinstance(x, str):
            return SymStr(x)
        raise EngineLimit('cannot view %r as text' % type(x).__name__)

    def is_concrete(self):
        return not any(_sym(c) for c in self.cps)

    def concrete(self, model=None):
        return ''.join(chr(core.concrete(c, model) if _sym(c) else c) for c in self.cps)

    # -- sequence protocol --------------------------------------------------
    def __len__(self):
        return len(self.cps)

    def __iter__(self):
        for c in self.cps:
            yield SymStr([c])

    def __getitem__(self, i):
        if isinstance(i, slice):
            return _out(self.cps[i])
        if isinstance(i, SymInt):
            raise EngineLimit('symbolic index into symbolic text')
        return _out([self.cps[i]])

    def __add__(self, o):
        if isinstance(o, (str, SymStr)):
            return SymStr(self.cps + SymStr.of(o).cps)
        return NotImplemented

    def __radd__(self, o):
        if isinstance(o, str):
            return SymStr(SymStr.of(o).cps + self.cps)
        return NotImplemented

    def __mul__(self, k):
        if isinstance(k, int):
            return SymStr(self.cps * k)
        return NotImplemented

    def _eq(self, o):
        if not isinstance(o, (str, SymStr)):
            return False
        o = SymStr.of(o)
        if len(o.cps) != len(self.cps):
            return False
        for a, b in zip(self.cps, o.cps):
            if not (a == b):          # forks on a symbolic character
                return False
        return True

    def __eq__(self, o):
        return self._eq(o)

    def __ne__(self, o):
        return not self._eq(o)

    def __hash__(self):
        if self.is_concrete():
            return hash(self.concrete())
        raise EngineLimit('hash of symbolic text (used as a dictionary key or set member)')

    def __contains__(self, sub):
        sub = SymStr.of(sub)
        n = len(sub.cps)
        for i in range(len(self.cps) - n + 1):
            if SymStr(self.cps[i:i + n])._eq(sub):
                return True
        return n == 0

    def __bool__(self):
        return len(self.cps) > 0

    def __repr__(self):
        return 'SymStr(%s)' % ''.join(chr(c) if not _sym(c) else '¿' for c in self.cps)

    def __str__(self):
        if self.is_concrete():
            return self.concrete()
        return '⟨symbolic text⟩'

    def __format__(self, spec):
        return format(str(self), spec)

    # -- str methods used by the lexer / parser -------------------------------
    def startswith(self, prefix, *a):
        if a:
            raise EngineLimit('startswith with positions on symbolic text')
        if isinstance(prefix, tuple):
            return any(self.startswith(x) for x in prefix)
        pre = SymStr.of(prefix)
        return len(pre.cps) <= len(self.cps) and SymStr(self.cps[:len(pre.cps)])._eq(pre)

    def endswith(self, suffix, *a):
        if a:
            raise EngineLimit('endswith with positions on symbolic text')
        if isinstance(suffix, tuple):
            return any(self.endswith(x) for x in suffix)
        suf = SymStr.of(suffix)
        n = len(suf.cps)
        return n <= len(self.cps) and SymStr(self.cps[len(self.cps) - n:])._eq(suf)

    def _map_case(self, lower):
        out = []
        for c in self.cps:
            if not _sym(c):
                s = chr(c).lower() if lower else chr(c).upper()
                out.extend(ord(ch) for ch in s)
                continue
            # ASCII letters are mapped; a symbolic character outside ASCII is left for the engine limit
            if c < 128:
                if lower:
                    out.append(core.ite(core.And(c >= 65, c <= 90), c + 32, c))
                else:
                    out.append(core.ite(core.And(c >= 97, c <= 122), c - 32, c))
            else:
                # the case mapping of an arbitrary non-ASCII character is not modelled: the result is some
                # unknown character (over-approximation; counterexamples are re-checked on the real code)
                SymStr._fresh += 1
                out.append(_path().int('casemap%d' % SymStr._fresh, lo=0, hi=MAXCP))
        return _out(out)

    _fresh = 0

    def lower(self):
        return self._map_case(True)

    def upper(self):
        return self._map_case(False)

    def _is_space(self, c):
        if not _sym(c):
            return chr(c).isspace()
        return bool(_in_ranges(c, category_ranges('space')))

    def strip(self, chars=None):
        return SymStr.of(self.lstrip(chars)).rstrip(chars)

    def lstrip(self, chars=None):
        cps = list(self.cps)
        while cps and self._strip_test(cps[0], chars):
            cps.pop(0)
        return _out(cps)

    def rstrip(self, chars=None):
        cps = list(self.cps)
        while cps and self._strip_test(cps[-1], chars):
            cps.pop()
        return _out(cps)

    def replace(self, old, new, count=-1):
        if count != -1:
            raise EngineLimit('str.replace with a count on symbolic text')
        old, new = SymStr.of(old).cps, SymStr.of(new).cps
        if not old:
            raise EngineLimit('str.replace of the empty string on symbolic text')
        out, i, n = [], 0, len(self.cps)
        while i < n:
            if i + len(old) <= n and SymStr(self.cps[i:i + len(old)])._eq(SymStr(old)):
                out.extend(new)
                i += len(old)
            else:
                out.append(self.cps[i])
                i += 1
        return _out(out)

    def split(self, sep=None, maxsplit=-1):
        if maxsplit != -1:
            raise EngineLimit('str.split with maxsplit on symbolic text')
        parts, cur = [], []
        if sep is None:
            for c in self.cps:
                if self._is_space(c):
                    if cur:
                        parts.append(_out(cur))
                        cur = []
                else:
                    cur.append(c)
            if cur:
                parts.append(_out(cur))
            return parts
        sep = SymStr.of(sep).cps
        i, n = 0, len(self.cps)
        while i < n:
            if i + len(sep) <= n and SymStr(self.cps[i:i + len(sep)])._eq(SymStr(sep)):
                parts.append(_out(cur))
                cur = []
                i += len(sep)
            else:
                cur.append(self.cps[i])
                i += 1
        parts.append(_out(cur))
        return parts

    def splitlines(self, keepends=False):
        if keepends:
            raise EngineLimit('splitlines(keepends=True) on symbolic text')
        lines, cur = [], []
        cps = self.cps
        i, n = 0, len(cps)
        while i < n:
            c = cps[i]
            brk = core.Or(*[c == lb for lb in LINE_BREAKS]) if _sym(c) else (c in LINE_BREAKS)
            if brk:
                lines.append(_out(cur))
                cur = []
                # \r\n counts as one break
                if not _sym(c) and c == 0x0d and i + 1 < n and not _sym(cps[i + 1]) and cps[i + 1] == 0x0a:
                    i += 1
            else:
                cur.append(c)
            i += 1
        if cur:
            lines.append(_out(cur))
        return lines

    def isspace(self):
        return len(self.cps) > 0 and all(self._is_space(c) for c in self.cps)

    def _strip_test(self, c, chars):
        if chars is None:
            return self._is_space(c)
        for ch in SymStr.of(chars).cps:
            if c == ch:
                return True
        return False

    def encode(self, encoding='utf-8', errors='strict'):
        return encode(self.cps, encoding, errors)

    def __deepcopy__(self, memo):
        return self

    def __copy__(self):
        return self

    def __getattr__(self, name):
        if name.startswith('__') and name.endswith('__'):
            raise AttributeError(name)
        raise EngineLimit('str.%s is not modelled for symbolic text' % name)


# ---------------------------------------------------------------------------
# character classes
# ---------------------------------------------------------------------------
_CAT = {}


def category_ranges(kind):
    """code point ranges of a regex / str category, computed from CPython itself"""
    if kind not in _CAT:
        if kind == 'space':
            test = lambda ch: ch.isspace()
        elif kind == 'digit':
            pat = _re.compile(r'\d')
            test = lambda ch: pat.match(ch) is not None
        elif kind == 'word':
            pat = _re.compile(r'\w')
            test = lambda ch: pat.match(ch) is not None
        else:
            raise EngineLimit('character category %r' % kind)
        out = []
        for c in range(MAXCP + 1):
            if test(chr(c)):
                if out and out[-1][1] == c - 1:
                    out[-1][1] = c
                else:
                    out.append([c, c])
        _CAT[kind] = out
    return _CAT[kind]


def _in_ranges(c, ranges):
    return core.Or(*[core.And(c >= lo, c <= hi) if lo != hi else (c == lo) for lo, hi in ranges])


# ---------------------------------------------------------------------------
# codec models
# ---------------------------------------------------------------------------
def _norm(encoding):
    e = encoding.lower().replace('_', '-')
    return {'latin1': 'latin-1', 'iso-8859-1': 'latin-1', 'iso8859-1': 'latin-1', 'l1': 'latin-1', '8859': 'latin-1',
            'utf8': 'utf-8', 'u8': 'utf-8', 'utf': 'utf-8', 'us-ascii': 'ascii', '646': 'ascii',
            'unicode-escape': 'unicode-escape', 'unicodeescape': 'unicode-escape'}.get(e, e)


def _b(v):
    """one output byte"""
    if _sym(v):
        return Seg('int', n=1, endian='<', value=v, signed=False)
    return Seg('lit', data=bytes([v]))


def _hexdigit(d):
    """ASCII code of the lowercase hex digit of nibble d"""
    if _sym(d):
        return core.ite(d < 10, d + 48, d + 87)
    return ord('%x' % d)


def _encode_error(encoding, cp, i, reason):
    cpv = cp if not _sym(cp) else 0xfffd
    return UnicodeEncodeError(encoding, chr(cpv), 0, 1, reason)


def _replacement(cps_out, cp, errors, encoding, i, reason, limit):
    """what an error handler emits for the unencodable character cp (as a list of byte values)"""
    if errors == 'strict':
        raise _encode_error(encoding, cp, i, reason)
    if errors == 'ignore':
        return []
    if errors == 'replace':
        return [ord('?')]
    if errors == 'backslashreplace':
        if cp < 0x100:
            return [92, ord('x')] + [_hexdigit((cp >> s) & 15) for s in (4, 0)]
        if cp < 0x10000:
            return [92, ord('u')] + [_hexdigit((cp >> s) & 15) for s in (12, 8, 4, 0)]
        return [92, ord('U')] + [_hexdigit((cp >> s) & 15) for s in (28, 24, 20, 16, 12, 8, 4, 0)]
    raise EngineLimit('error handler %r of the %s codec is not modelled' % (errors, encoding))


def encode(cps, encoding='utf-8', errors='strict'):
    enc = _norm(encoding)
    out = []
    if enc in ('latin-1', 'ascii'):
        limit = 256 if enc == 'latin-1' else 128
        for i, cp in enumerate(cps):
            if cp < limit:
                out.append(cp)
            else:
                out.extend(_replacement(out, cp, errors, enc, i, 'ordinal not in range(%d)' % limit, limit))
    elif enc == 'utf-8':
        for i, cp in enumerate(cps):
            if cp < 0x80:
                out.append(cp)
            elif cp < 0x800:
                out += [0xc0 | (cp >> 6), 0x80 | (cp & 0x3f)]
            elif cp < 0x10000:
                if core.And(cp >= 0xd800, cp <= 0xdfff) if _sym(cp) else 0xd800 <= cp <= 0xdfff:
                    if errors == 'surrogatepass':
                        out += [0xe0 | (cp >> 12), 0x80 | ((cp >> 6) & 0x3f), 0x80 | (cp & 0x3f)]
                    else:
                        out.extend(_replacement(out, cp, errors, enc, i, 'surrogates not allowed', 0))
                else:
                    out += [0xe0 | (cp >> 12), 0x80 | ((cp >> 6) & 0x3f), 0x80 | (cp & 0x3f)]
            else:
                out += [0xf0 | (cp >> 18), 0x80 | ((cp >> 12) & 0x3f), 0x80 | ((cp >> 6) & 0x3f), 0x80 | (cp & 0x3f)]
    elif enc in ('utf-16-le', 'utf-16-be', 'utf-16', 'utf-32-le', 'utf-32-be', 'utf-32'):
        wide = enc.startswith('utf-32')
        little = not enc.endswith('-be') and (enc.endswith('-le') or sys.byteorder == 'little')
        units = []
        if enc in ('utf-16', 'utf-32'):
            units.append(0xfeff)
        for i, cp in enumerate(cps):
            if (core.And(cp >= 0xd800, cp <= 0xdfff) if _sym(cp) else 0xd800 <= cp <= 0xdfff) and errors != 'surrogatepass':
                raise _encode_error(enc, cp, i, 'surrogates not allowed') if errors == 'strict' else EngineLimit('utf-16/32 error handler')
            if wide or cp < 0x10000:
                units.append(cp)
            else:
                v = cp - 0x10000
                units += [0xd800 | (v >> 10), 0xdc00 | (v & 0x3ff)]
        for u in units:
            bs = [(u >> s) & 0xff for s in ((0, 8, 16, 24) if wide else (0, 8))]
            out += bs if little else bs[::-1]
    else:
        raise EngineLimit('codec %r is not modelled for symbolic text' % encoding)
    return SymBytes([_b(v) for v in out])


def _byte_values(data):
    out = []
    for s in SymBytes.of(data).segs:
        if s.kind == 'lit':
            out.extend(s.data)
        elif s.kind == 'int' and s.n == 1:
            v = s.value
            if _sym(v) and (v.lo < 0 or v.hi > 255):
                v = v & 0xff
            out.append(v)
        else:
            raise EngineLimit('decode of bytes that are not a sequence of single bytes')
    return out


def _hexval(b):
    """value of ASCII hex digit b, or None (one fork: digit or not)"""
    if not _sym(b):
        ch = chr(b)
        return int(ch, 16) if ch in '0123456789abcdefABCDEF' else None
    if not core.Or(core.And(b >= 48, b <= 57), core.And(b >= 97, b <= 102), core.And(b >= 65, b <= 70)):
        return None
    return core.ite(b <= 57, b - 48, core.ite(b >= 97, b - 87, b - 55))


_SIMPLE = ((98, 8), (102, 12), (116, 9), (110, 10), (114, 13), (118, 11), (97, 7), (92, 92), (39, 39), (34, 34))


def _simple_escape(c):
    """value of a one-character escape, or None (one fork)"""
    if not _sym(c):
        return dict(_SIMPLE).get(c)
    if not core.Or(*[c == k for k, v in _SIMPLE]):
        return None
    r = _SIMPLE[-1][1]
    for k, v in _SIMPLE[:-1]:
        r = core.ite(c == k, v, r)
    return r


def _decode_error(codec, reason):
    return UnicodeDecodeError(codec, b'\\', 0, 1, reason)


def decode(data, encoding='utf-8', errors='strict'):
    enc = _norm(encoding)
    bs = _byte_values(data)
    if errors != 'strict':
        raise EngineLimit('decode error handler %r is not modelled' % errors)
    out = []
    if enc == 'latin-1':
        out = list(bs)
    elif enc == 'ascii':
        for b in bs:
            if b < 128:
                out.append(b)
            else:
                raise _decode_error('ascii', 'ordinal not in range(128)')
    elif enc == 'unicode-escape':
        i, n = 0, len(bs)
        while i < n:
            b = bs[i]
            i += 1
            if b != 92:
                out.append(b)
                continue
            if i >= n:
                raise _decode_error('unicodeescape', '\\ at end of string')
            c = bs[i]
            i += 1
            if c == 10:
                continue
            simple = _simple_escape(c)
            if simple is not None:
                out.append(simple)
                continue
            if c >= 48 and c <= 55:
                v = c - 48
                if i < n and bs[i] >= 48 and bs[i] <= 55:
                    v = (v << 3) + (bs[i] - 48)
                    i += 1
                    if i < n and bs[i] >= 48 and bs[i] <= 55:
                        v = (v << 3) + (bs[i] - 48)
                        i += 1
                out.append(v)
                continue
            count = None
            for ch, k, msg in ((120, 2, 'truncated \\xXX escape'), (117, 4, 'truncated \\uXXXX escape'), (85, 8, 'truncated \\UXXXXXXXX escape')):
                if c == ch:
                    count, message = k, msg
                    break
            if count is not None:
                v = 0
                for k in range(count):
                    if i >= n:
                        raise _decode_error('unicodeescape', message)
                    h = _hexval(bs[i])
                    if h is None:
                        raise _decode_error('unicodeescape', message)
                    v = (v << 4) + h
                    i += 1
                if v > MAXCP:
                    raise _decode_error('unicodeescape', 'illegal Unicode character')
                out.append(v)
                continue
            if c == 78:
                raise EngineLimit('\\N{name} escapes (unicodedata lookup) are not modelled')
            # unknown escape: the backslash stays (DeprecationWarning only)
            out.append(92)
            out.append(c)
    elif enc == 'utf-8':
        i, n = 0, len(bs)
        while i < n:
            b = bs[i]
            if b < 0x80:
                out.append(b)
                i += 1
                continue
            if b < 0xc2:
                raise _decode_error('utf-8', 'invalid start byte')
            need = 1 if b < 0xe0 else (2 if b < 0xf0 else (3 if b < 0xf5 else None))
            if need is None:
                raise _decode_error('utf-8', 'invalid start byte')
            if i + need > n - 1:
                raise _decode_error('utf-8', 'unexpected end of data')
            cont = bs[i + 1:i + 1 + need]
            for k, cb in enumerate(cont):
                lo, hi = 0x80, 0xbf
                if k == 0:
                    if need == 2 and b == 0xe0:
                        lo = 0xa0
                    elif need == 2 and b == 0xed:
                        hi = 0x9f
                    elif need == 3 and b == 0xf0:
                        lo = 0x90
                    elif need == 3 and b == 0xf4:
                        hi = 0x8f
                if not (cb >= lo and cb <= hi):
                    raise _decode_error('utf-8', 'invalid continuation byte')
            v = b & (0x1f if need == 1 else (0x0f if need == 2 else 0x07))
            for cb in cont:
                v = (v << 6) | (cb & 0x3f)
            out.append(v)
            i += 1 + need
    else:
        raise EngineLimit('codec %r is not modelled for symbolic bytes' % encoding)
    return SymStr(out)


def _symbytes_decode(self, encoding='utf-8', errors='strict'):
    if all(s.kind == 'lit' for s in self.segs):
        return b''.join(s.data for s in self.segs).decode(encoding, errors)
    return decode(self, encoding, errors)


SymBytes.decode = _symbytes_decode
SymByteArray.decode = lambda self, *a, **k: _symbytes_decode(SymBytes(self.segs), *a, **k)


# ---------------------------------------------------------------------------
# regular expressions over symbolic text
# ---------------------------------------------------------------------------
class SymMatch:
    def __init__(self, subject, spans):
        self.string = subject
        self.spans = spans

    def group(self, *idx):
        if not idx:
            idx = (0,)
        res = []
        for i in idx:
            sp = self.spans.get(i)
            res.append(None if sp is None else _out(self.string.cps[sp[0]:sp[1]]))
        return res[0] if len(res) == 1 else tuple(res)

    def groups(self, default=None):
        n = max(self.spans) if self.spans else 0
        return tuple(self.group(i) if self.spans.get(i) is not None else default for i in range(1, n + 1))

    def span(self, i=0):
        return self.spans.get(i, (-1, -1))

    def start(self, i=0):
        return self.span(i)[0]

    def end(self, i=0):
        return self.span(i)[1]

    def __getitem__(self, i):
        return self.group(i)


def _class_test(items, c):
    """does character c belong to the [...] set"""
    negate = False
    hit = False
    for op, av in items:
        if op is _sre_c.NEGATE:
            negate = True
            continue
        if hit:
            continue
        if op is _sre_c.LITERAL:
            hit = bool(c == av)
        elif op is _sre_c.RANGE:
            hit = bool(c >= av[0] and c <= av[1])
        elif op is _sre_c.CATEGORY:
            hit = _category(av, c)
        else:
            raise EngineLimit('regex set item %r' % (op,))
    return hit != negate


def _category(cat, c):
    name = str(cat)
    neg = 'NOT_' in name
    kind = 'space' if 'SPACE' in name else ('digit' if 'DIGIT' in name else ('word' if 'WORD' in name else None))
    if kind is None:
        raise EngineLimit('regex category %s' % name)
    if _sym(c):
        r = bool(_in_ranges(c, category_ranges(kind)))
    else:
        r = _re.match({'space': r'\s', 'digit': r'\d', 'word': r'\w'}[kind], chr(c)) is not None
    return r != neg


def _m(nodes, k, cps, pos, groups):
    """backtracking matcher: yields (end position, groups) in the priority order of ``re``"""
    if k == len(nodes):
        yield pos, groups
        return
    op, av = nodes[k]
    n = len(cps)
    if op is _sre_c.LITERAL:
        hit = False
        if pos < n:
            core.PREFER[0] = True            # search order: try to get deeper into the pattern first
            try:
                hit = bool(cps[pos] == av)
            finally:
                core.PREFER[0] = None
        if hit:
            yield from _m(nodes, k + 1, cps, pos + 1, groups)
    elif op is _sre_c.NOT_LITERAL:
        if pos < n and cps[pos] != av:
            yield from _m(nodes, k + 1, cps, pos + 1, groups)
    elif op is _sre_c.ANY:
        if pos < n and cps[pos] != 10:
            yield from _m(nodes, k + 1, cps, pos + 1, groups)
    elif op is _sre_c.IN:
        if pos < n and _class_test(av, cps[pos]):
            yield from _m(nodes, k + 1, cps, pos + 1, groups)
    elif op is _sre_c.CATEGORY:
        if pos < n and _category(av, cps[pos]):
            yield from _m(nodes, k + 1, cps, pos + 1, groups)
    elif op is _sre_c.AT:
        name = str(av)
        if name.endswith('AT_BEGINNING') or name.endswith('AT_BEGINNING_STRING'):
            ok = pos == 0
        elif name.endswith('AT_END_STRING'):
            ok = pos == n
        elif name.endswith('AT_END'):
            ok = pos == n or (pos == n - 1 and bool(cps[pos] == 10))
        else:
            raise EngineLimit('regex anchor %s' % name)
        if ok:
            yield from _m(nodes, k + 1, cps, pos, groups)
    elif op in (_sre_c.ASSERT, _sre_c.ASSERT_NOT):
        direction, sub = av
        if direction < 0:
            raise EngineLimit('regex look-behind on symbolic text')
        found = None
        for end, g in _m(list(sub), 0, cps, pos, groups):
            found = g
            break
        if (found is not None) == (op is _sre_c.ASSERT):
            yield from _m(nodes, k + 1, cps, pos, found if found is not None else groups)
    elif op is _sre_c.SUBPATTERN:
        gid, add_flags, del_flags, sub = av
        if add_flags or del_flags:
            raise EngineLimit('regex inline flags')
        for end, g in _m(list(sub), 0, cps, pos, groups):
            g2 = dict(g)
            if gid is not None:
                g2[gid] = (pos, end)
            yield from _m(nodes, k + 1, cps, end, g2)
    elif op is _sre_c.BRANCH:
        for alt in av[1]:
            for end, g in _m(list(alt), 0, cps, pos, groups):
                yield from _m(nodes, k + 1, cps, end, g)
    elif op in (_sre_c.MAX_REPEAT, _sre_c.MIN_REPEAT):
        lo, hi, sub = av
        sub = list(sub)
        greedy = op is _sre_c.MAX_REPEAT

        def rep(count, p, g):
            can_stop = count >= lo
            more = hi is _sre_c.MAXREPEAT or count < hi
            if not greedy and can_stop:
                yield from _m(nodes, k + 1, cps, p, g)
            if more:
                for end, g2 in _m(sub, 0, cps, p, g):
                    if end == p and count >= lo:
                        continue            # empty iteration: stop, like sre
                    yield from rep(count + 1, end, g2)
            if greedy and can_stop:
                yield from _m(nodes, k + 1, cps, p, g)
        yield from rep(0, pos, groups)
    else:
        raise EngineLimit('regex construct %s on symbolic text' % (op,))


class SymPattern:
    """wraps a compiled pattern: real matching on str, symbolic matching on SymStr"""

    def __init__(self, pattern, flags=0):
        self._real = _re.compile(pattern, flags)
        self.pattern = pattern
        self.flags = self._real.flags
        self._tree = None

    def _nodes(self):
        if self._tree is None:
            if not isinstance(self.pattern, str) or (self.flags & ~_re.UNICODE):
                raise EngineLimit('regex flags %r on symbolic text' % (self.flags,))
            self._tree = list(_sre_parse.parse(self.pattern, self.flags))
        return self._tree

    def _run(self, s, start, full):
        for end, g in _m(self._nodes(), 0, s.cps, start, {}):
            if full and end != len(s.cps):
                continue
            g = dict(g)
            g[0] = (start, end)
            return SymMatch(s, g)
        return None

    def match(self, s, *a):
        if isinstance(s, SymStr):
            if s.is_concrete() and not a:
                return _lift_match(self._real.match(s.concrete()), s)
            return self._run(s, a[0] if a else 0, False)
        return self._real.match(s, *a)

    def fullmatch(self, s, *a):
        if isinstance(s, SymStr):
            return self._run(s, a[0] if a else 0, True)
        return self._real.fullmatch(s, *a)

    def search(self, s, *a):
        if isinstance(s, SymStr):
            for st in range(a[0] if a else 0, len(s.cps) + 1):
                m = self._run(s, st, False)
                if m is not None:
                    return m
            return None
        return self._real.search(s, *a)

    def sub(self, repl, s, count=0):
        if isinstance(s, SymStr):
            if count:
                raise EngineLimit('re.sub with a count on symbolic text')
            out, pos = [], 0
            n = len(s.cps)
            while pos <= n:
                m = None
                st = pos
                while st <= n:
                    m = self._run(s, st, False)
                    if m is not None:
                        break
                    st += 1
                if m is None:
                    break
                a, b = m.span()
                out.extend(s.cps[pos:a])
                r = repl(m) if callable(repl) else _expand(repl, m)
                out.extend(SymStr.of(r).cps)
                if b == a:
                    if a < n:
                        out.append(s.cps[a])
                    pos = a + 1
                else:
                    pos = b
            out.extend(s.cps[pos:])
            return _out(out)
        return self._real.sub(repl, s, count)

    def finditer(self, s, *a):
        if isinstance(s, SymStr):
            pos, n = (a[0] if a else 0), len(s.cps)
            while pos <= n:
                m = None
                while pos <= n:
                    m = self._run(s, pos, False)
                    if m is not None:
                        break
                    pos += 1
                if m is None:
                    return
                yield m
                pos = m.end() if m.end() > m.start() else m.end() + 1
            return
        yield from self._real.finditer(s, *a)

    def findall(self, s, *a):
        if isinstance(s, SymStr):
            out = []
            for m in self.finditer(s, *a):
                g = self._real.groups
                out.append(m.group(0) if g == 0 else (m.group(1) if g == 1 else m.groups('')))
            return out
        return self._real.findall(s, *a)

    def split(self, s, maxsplit=0):
        if isinstance(s, SymStr):
            if maxsplit or self._real.groups:
                raise EngineLimit('re.split with maxsplit / groups on symbolic text')
            parts, cur, pos, n = [], [], 0, len(s.cps)
            while pos < n:
                m = self._run(s, pos, False)
                if m is not None and m.end() > pos:
                    parts.append(_out(cur))
                    cur = []
                    pos = m.end()
                else:
                    cur.append(s.cps[pos])
                    pos += 1
            parts.append(_out(cur))
            return parts
        return self._real.split(s, maxsplit)

    def __getattr__(self, name):
        return getattr(self._real, name)


def _expand(template, m):
    if '\\' in template:
        raise EngineLimit('regex replacement template with group references on symbolic text')
    return template


def _lift_match(m, s):
    if m is None:
        return None
    spans = {i: (m.span(i) if m.span(i) != (-1, -1) else None) for i in range(0, (m.re.groups or 0) + 1)}
    return SymMatch(s, spans)


class ReProxy:
    """stands in for the ``re`` module inside the shimmed assembler"""

    def __init__(self):
        self._cache = {}

    def compile(self, pattern, flags=0):
        key = (pattern, int(flags))
        if key not in self._cache:
            self._cache[key] = SymPattern(pattern, flags)
        return self._cache[key]

    def match(self, pattern, s, flags=0):
        return self.compile(pattern, flags).match(s)

    def fullmatch(self, pattern, s, flags=0):
        return self.compile(pattern, flags).fullmatch(s)

    def search(self, pattern, s, flags=0):
        return self.compile(pattern, flags).search(s)

    def sub(self, pattern, repl, s, count=0, flags=0):
        return self.compile(pattern, flags).sub(repl, s, count)

    def split(self, pattern, s, maxsplit=0, flags=0):
        return self.compile(pattern, flags).split(s, maxsplit)

    def findall(self, pattern, s, flags=0):
        return self.compile(pattern, flags).findall(s)

    def finditer(self, pattern, s, flags=0):
        return self.compile(pattern, flags).finditer(s)

    def __getattr__(self, name):
        v = getattr(_re, name)
        if callable(v) and name in ('subn',):
            def guarded(pattern, s, *a, **k):
                if isinstance(s, SymStr):
                    raise EngineLimit('re.%s on symbolic text' % name)
                return v(pattern, s, *a, **k)
            return guarded
        return v


def sym_chars(p, n, prefix='c', line_text=True, ascii_only=()):
    """n fresh symbolic characters of a source line: any code point a UTF-8 file can hold
    (no surrogates) that str.splitlines() keeps inside one line"""
    out = []
    for i in range(n):
        c = p.int('%s%d' % (prefix, i), lo=0, hi=127 if i in ascii_only else MAXCP)
        p.assume(core.Not(core.And(c >= 0xd800, c <= 0xdfff)))
        if line_text:
            for lb in LINE_BREAKS:
                p.assume(c != lb)
        out.append(c)
    return out


def sym_ord(x):
    """ord() of a one-character symbolic text is its code point"""
    if isinstance(x, SymStr):
        if len(x.cps) != 1:
            raise TypeError('ord() expected a character, but string of length %d found' % len(x.cps))
        return x.cps[0]
    return ord(x)


def install(mod):
    """bind the module-level names a shimmed copy of asm.py needs for symbolic text"""
    mod.re = ReProxy()
    mod.ord = sym_ord
    # regular expressions compiled when the module was loaded (module-level constants)
    for name, val in list(vars(mod).items()):
        if isinstance(val, _re.Pattern):
            setattr(mod, name, mod.re.compile(val.pattern, val.flags))
    return mod

"""Second solver: re-decide a z3 query with cvc5 (python wheel, in-process) from its SMT-LIB2 export."""
import z3


def recheck(assertions, timeout_ms=60000):
    """returns 'sat' | 'unsat' | 'unknown' | 'error:<msg>'"""
    s = z3.Solver()
    for a in assertions:
        s.add(a)
    text = '(set-logic ALL)\n' + s.to_smt2()
    try:
        import cvc5
        tm = cvc5.TermManager()
        slv = cvc5.Solver(tm)
        slv.setOption('tlimit-per', str(timeout_ms))
        parser = cvc5.InputParser(slv)
        parser.setStringInput(cvc5.InputLanguage.SMT_LIB_2_6, text, 'query')
        sm = parser.getSymbolManager()
        out = ''
        while True:
            cmd = parser.nextCommand()
            if cmd.isNull():
                break
            r = cmd.invoke(slv, sm)
            if r:
                out += str(r)
        if '(error' in out:
            return 'error:' + out[:200]
        for word in ('unsat', 'sat', 'unknown'):
            if word in out.split():
                return word
        return 'error:no answer: ' + out[:200]
    except Exception as e:
        return 'error:%s: %s' % (type(e).__name__, str(e)[:200])

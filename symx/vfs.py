"""A virtual file system standing in for the ``os`` module and ``open`` inside a
shimmed copy of asm.py / dfu.py.  Existence of a file may be a symbolic bit, the size
of a 'gap' file is a symbolic integer, the working directory is a per-path choice."""
import io
import os as _os
import posixpath

from . import core
from .core import SymInt, SymBool, EngineLimit, _path
from .symbytes import SymBytes, SymByteArray, Seg
from .asmshim import Markers


class VFile:
    def __init__(self, kind, content=None, exists=True, marker=None):
        self.kind = kind            # 'text' | 'bytes' | 'gap'
        self.content = content
        self.exists = exists        # bool | SymBool
        self.marker = marker        # for gap files: name of the symbolic size
        VFile.clock += 1
        self.mtime = 1700000000.0 + VFile.clock      # every creation / rewrite gets a later time stamp

    clock = 0


class GapSize:
    """what os.path.getsize returns for a gap file: formats as the @marker@ token"""

    def __init__(self, marker):
        self.marker = marker

    def __format__(self, spec):
        return '@%s@' % self.marker

    __str__ = lambda self: '@%s@' % self.marker


class _Reader:
    def __init__(self, data):
        self.data = data

    def read(self, n=-1):
        pos = getattr(self, 'pos', 0)
        data = self.data
        if isinstance(data, SymBytes):
            if pos:
                raise EngineLimit('second partial read of symbolic file content')
            if n is None or n < 0:
                self.pos = 1 << 62
                return data
            self.pos = n
            return data.take(n)
        rest = data[pos:]
        if n is None or n < 0:
            self.pos = len(data)
            return rest
        self.pos = pos + min(n, len(rest))
        return rest[:n]

    def __enter__(self):
        return self

    def __exit__(self, *a):
        return False

    def close(self):
        pass


class _Writer:
    def __init__(self, vfs, path, binary):
        self.vfs, self.path, self.binary = vfs, path, binary
        self.chunks = []
        vfs.writes.append(('open-w', path))
        # opening for write truncates
        vfs.files[path] = VFile('written', content=self.chunks)

    def write(self, data):
        self.chunks.append(data)
        self.vfs.writes.append(('write', self.path))

    def writelines(self, lines):
        for l in lines:
            self.write(l)

    def __enter__(self):
        return self

    def __exit__(self, *a):
        return False

    def close(self):
        pass


class VFS:
    def __init__(self, cwd='/w'):
        self.files = {}
        self.dirs = {'/', cwd}
        self.cwd = cwd
        self.writes = []
        self.opened = []

    # -- construction ----------------------------------------------------
    def add_text(self, path, text, exists=True):
        self.files[path] = VFile('text', text, exists)
        self._mkdirs(path)

    def add_bytes(self, path, data, exists=True):
        self.files[path] = VFile('bytes', data, exists)
        self._mkdirs(path)

    def add_symtext(self, path, text):
        """a text file whose content is symbolic text (symx.symstr.SymStr)"""
        self.files[path] = VFile('symtext', text, True)
        self._mkdirs(path)

    def add_gap(self, path, marker):
        self.files[path] = VFile('gap', None, True, marker)
        self._mkdirs(path)

    def add_dir(self, d):
        while d and d != '/':
            self.dirs.add(d)
            d = posixpath.dirname(d)

    def _mkdirs(self, path):
        self.add_dir(posixpath.dirname(path))

    # -- os / os.path ----------------------------------------------------
    def abspath(self, p):
        if not posixpath.isabs(p):
            p = posixpath.join(self.cwd, p)
        return posixpath.normpath(p)

    def exists(self, p):
        try:
            a = self.abspath(p)
        except Exception:
            return False
        f = self.files.get(a)
        if f is not None:
            return bool(f.exists)        # forks when symbolic
        return a in self.dirs

    def isdir(self, p):
        return self.abspath(p) in self.dirs

    def isfile(self, p):
        f = self.files.get(self.abspath(p))
        return f is not None and bool(f.exists)

    def getsize(self, p):
        a = self.abspath(p)
        f = self.files.get(a)
        if f is None or not bool(f.exists):
            raise FileNotFoundError(2, 'No such file or directory', p)
        if f.kind == 'gap':
            return GapSize(f.marker)
        if f.kind == 'symtext':
            return len(f.content.encode('utf-8'))
        if f.kind == 'text':
            return len(f.content.encode('utf-8'))
        if f.kind == 'written':
            return sum(len(c) for c in f.content)
        return len(f.content)

    def getmtime(self, p):
        a = self.abspath(p)
        f = self.files.get(a)
        if f is None or not bool(f.exists):
            if a in self.dirs:
                return 1700000000.0
            raise FileNotFoundError(2, 'No such file or directory', p)
        return f.mtime

    def remove(self, p):
        a = self.abspath(p)
        if a not in self.files or not bool(self.files[a].exists):
            raise FileNotFoundError(2, 'No such file or directory', p)
        del self.files[a]

    def open(self, p, mode='r', *a, **kw):
        ab = self.abspath(p)
        self.opened.append((ab, mode))
        if 'w' in mode or 'a' in mode or '+' in mode:
            return _Writer(self, ab, 'b' in mode)
        f = self.files.get(ab)
        if f is None or not bool(f.exists):
            raise FileNotFoundError(2, 'No such file or directory', p)
        if f.kind == 'gap':
            if 'b' not in mode:
                raise EngineLimit('gap file opened in text mode')
            return _Reader(SymBytes([Seg('opaque', fid=f.marker, off=0, count=Markers.table[f.marker])]))
        if f.kind in ('symtext', 'text'):
            if 'b' in mode:
                return _Reader(f.content.encode('utf-8'))
            enc = (kw.get('encoding') or (a[1] if len(a) > 1 else None) or 'utf-8').lower().replace('_', '-')
            if enc in ('utf-8', 'utf8'):
                return _Reader(f.content)
            # the file holds UTF-8; read through another codec it comes out as that codec sees those bytes
            return _Reader(f.content.encode('utf-8').decode(enc, kw.get('errors') or 'strict'))
        if f.kind == 'written':
            if all(isinstance(c, (bytes, bytearray)) for c in f.content):
                data = b''.join(f.content)
                return _Reader(data if 'b' in mode else data.decode('utf-8'))
            if all(isinstance(c, str) for c in f.content):
                data = ''.join(f.content)
                return _Reader(data.encode('utf-8') if 'b' in mode else data)
            if 'b' not in mode:
                raise EngineLimit('symbolic file content read in text mode')
            segs = []
            for c in f.content:
                if isinstance(c, tuple):
                    raise EngineLimit('read of a file that was written without truncation')
                segs += SymBytes.of(c).segs
            return _Reader(SymBytes(segs))
        return _Reader(f.content if 'b' in mode else f.content.decode('utf-8'))

    def install(self, mod):
        mod.os = OsProxy(self)
        mod.open = self.open
        # pathlib, however the module imported it
        import pathlib as _pl
        VPath, ns = make_path_class(self)
        for name, val in list(vars(mod).items()):
            if val is _pl:
                setattr(mod, name, ns)
            elif isinstance(val, type) and issubclass(val, _pl.PurePath):
                setattr(mod, name, VPath if issubclass(val, _pl.Path) else val)
        return mod


class _PathProxy:
    def __init__(self, vfs):
        self._v = vfs

    def __getattr__(self, name):
        return getattr(posixpath, name)

    def abspath(self, p):
        return self._v.abspath(p)

    def exists(self, p):
        return self._v.exists(p)

    def isdir(self, p):
        return self._v.isdir(p)

    def isfile(self, p):
        return self._v.isfile(p)

    def getsize(self, p):
        return self._v.getsize(p)

    def realpath(self, p):
        return self._v.abspath(p)

    def getmtime(self, p):
        return self._v.getmtime(p)

    getctime = getmtime
    getatime = getmtime

    def samefile(self, a, b):
        return self._v.abspath(a) == self._v.abspath(b)


class OsProxy:
    """stands in for the ``os`` module: pure helpers pass through, file-system access goes to the
    virtual tree, anything else is an engine limit (never the real file system)"""
    PURE = {'sep', 'linesep', 'pathsep', 'curdir', 'pardir', 'extsep', 'altsep', 'name', 'devnull', 'fspath', 'fsencode',
            'fsdecode', 'getpid', 'strerror', 'error', 'PathLike', 'cpu_count', 'urandom', 'getenv', 'environ'}

    def __init__(self, vfs):
        self._v = vfs
        self.path = _PathProxy(vfs)
        self._fds = {}

    def getcwd(self):
        return self._v.cwd

    def open(self, path, flags, mode=0o777, **kw):
        """os.open for writing: returns a fake descriptor remembering whether O_TRUNC was given"""
        if not (flags & (_os.O_WRONLY | _os.O_RDWR)):
            raise EngineLimit('os.open for reading is not modelled')
        ab = self._v.abspath(path)
        if not (flags & _os.O_CREAT) and not self._v.exists(ab):
            raise FileNotFoundError(2, 'No such file or directory', path)
        fd = 1000 + len(self._fds)
        self._fds[fd] = (ab, bool(flags & _os.O_TRUNC), bool(flags & _os.O_APPEND))
        self._v.writes.append(('open-w', ab))
        return fd

    def fdopen(self, fd, mode='r', *a, **kw):
        ab, trunc, append = self._fds[fd]
        old = self._v.files.get(ab)
        w = _Writer(self._v, ab, 'b' in mode)
        if not trunc and old is not None and old.kind in ('bytes', 'text', 'written'):
            # not truncated: whatever the old file held beyond the newly written bytes stays
            w.chunks.append(('OLD-CONTENT-NOT-TRUNCATED', old.kind))
        return w

    def close(self, fd):
        self._fds.pop(fd, None)

    def stat(self, path, *a, **k):
        v = self._v
        mt = v.getmtime(path)
        ab = v.abspath(path)
        isdir = ab in v.dirs and ab not in v.files
        size = 0 if isdir else v.getsize(path)
        import types
        return types.SimpleNamespace(st_mtime=mt, st_mtime_ns=int(mt * 1e9), st_ctime=mt, st_atime=mt, st_size=size,
                                     st_mode=(0o040755 if isdir else 0o100644), st_ino=abs(hash(ab)) % (1 << 31), st_dev=1)

    def listdir(self, path='.'):
        v = self._v
        ab = v.abspath(path)
        if ab not in v.dirs:
            raise FileNotFoundError(2, 'No such file or directory', path)
        names = set()
        for q in list(v.files) + list(v.dirs):
            if q != ab and posixpath.dirname(q) == ab and (q in v.dirs or bool(v.files[q].exists)):
                names.add(posixpath.basename(q))
        return sorted(names)

    def __getattr__(self, name):
        if name in OsProxy.PURE or (name.startswith('O_') and name.isupper()) or name.startswith('SEEK_'):
            return getattr(_os, name)
        raise EngineLimit('os.%s is not modelled by the virtual file system' % name)


def make_path_class(vfs):
    """pathlib.Path over the virtual tree: pure path arithmetic is pathlib's own (PurePosixPath),
    everything that touches the file system goes to ``vfs``"""
    import pathlib
    import types

    class VPath(pathlib.PurePosixPath):
        __slots__ = ()
        _v = vfs

        @classmethod
        def cwd(cls):
            return cls(cls._v.cwd)

        @classmethod
        def home(cls):
            raise EngineLimit('Path.home() is not modelled')

        def exists(self, **k):
            return self._v.exists(str(self))

        def is_file(self):
            return self._v.isfile(str(self))

        def is_dir(self):
            return self._v.isdir(str(self))

        def is_symlink(self):
            return False

        def stat(self, **k):
            return OsProxy(self._v).stat(str(self))

        def lstat(self):
            return self.stat()

        def open(self, mode='r', *a, **k):
            return self._v.open(str(self), mode, *a, **k)

        def read_text(self, encoding=None, errors=None):
            with self._v.open(str(self), 'r') as f:
                return f.read()

        def read_bytes(self):
            with self._v.open(str(self), 'rb') as f:
                return f.read()

        def write_text(self, data, encoding=None, errors=None, newline=None):
            with self._v.open(str(self), 'w') as f:
                f.write(data)
            return len(data)

        def write_bytes(self, data):
            with self._v.open(str(self), 'wb') as f:
                f.write(data)
            return sym_len_safe(data)

        def resolve(self, strict=False):
            return type(self)(self._v.abspath(str(self)))

        def absolute(self):
            p = str(self)
            return self if posixpath.isabs(p) else type(self)(posixpath.join(self._v.cwd, p))

        def expanduser(self):
            return self

        def samefile(self, other):
            return self._v.abspath(str(self)) == self._v.abspath(str(other))

        def iterdir(self):
            for n in OsProxy(self._v).listdir(str(self)):
                yield self / n

        def unlink(self, missing_ok=False):
            try:
                self._v.remove(str(self))
            except FileNotFoundError:
                if not missing_ok:
                    raise

        def __getattr__(self, name):
            if name.startswith('_'):
                raise AttributeError(name)
            raise EngineLimit('Path.%s is not modelled by the virtual file system' % name)

    ns = types.SimpleNamespace(Path=VPath, PosixPath=VPath, PurePath=pathlib.PurePosixPath, PurePosixPath=pathlib.PurePosixPath)
    return VPath, ns


def sym_len_safe(x):
    try:
        return len(x)
    except BaseException:
        return 0

"""A virtual file system standing in for the ``os`` module and ``open`` inside a
shimmed copy of asm.py / dfu.py.  Existence of a file may be a symbolic bit, the size
of a 'gap' file is a symbolic integer, the working directory is a per-path choice."""
import io
import os as _os
import posixpath

from . import core
from .core import SymInt, SymBool, EngineLimit, _path
from .symbytes import SymBytes, Seg
from .asmshim import Markers


class VFile:
    def __init__(self, kind, content=None, exists=True, marker=None):
        self.kind = kind            # 'text' | 'bytes' | 'gap'
        self.content = content
        self.exists = exists        # bool | SymBool
        self.marker = marker        # for gap files: name of the symbolic size


class GapSize:
    """what os.path.getsize returns for a gap file: formats as the @marker@ token"""

    def __init__(self, marker):
        self.marker = marker

    def __format__(self, spec):
        return '@%s@' % self.marker

    __str__ = lambda self: '@%s@' % self.marker


class _Reader:
    def __init__(self, data):
        self.data = data

    def read(self):
        return self.data

    def __enter__(self):
        return self

    def __exit__(self, *a):
        return False

    def close(self):
        pass


class _Writer:
    def __init__(self, vfs, path, binary):
        self.vfs, self.path, self.binary = vfs, path, binary
        self.chunks = []
        vfs.writes.append(('open-w', path))
        # opening for write truncates
        vfs.files[path] = VFile('written', content=self.chunks)

    def write(self, data):
        self.chunks.append(data)
        self.vfs.writes.append(('write', self.path))

    def writelines(self, lines):
        for l in lines:
            self.write(l)

    def __enter__(self):
        return self

    def __exit__(self, *a):
        return False

    def close(self):
        pass


class VFS:
    def __init__(self, cwd='/w'):
        self.files = {}
        self.dirs = {'/', cwd}
        self.cwd = cwd
        self.writes = []
        self.opened = []

    # -- construction ----------------------------------------------------
    def add_text(self, path, text, exists=True):
        self.files[path] = VFile('text', text, exists)
        self._mkdirs(path)

    def add_bytes(self, path, data, exists=True):
        self.files[path] = VFile('bytes', data, exists)
        self._mkdirs(path)

    def add_gap(self, path, marker):
        self.files[path] = VFile('gap', None, True, marker)
        self._mkdirs(path)

    def add_dir(self, d):
        while d and d != '/':
            self.dirs.add(d)
            d = posixpath.dirname(d)

    def _mkdirs(self, path):
        self.add_dir(posixpath.dirname(path))

    # -- os / os.path ----------------------------------------------------
    def abspath(self, p):
        if not posixpath.isabs(p):
            p = posixpath.join(self.cwd, p)
        return posixpath.normpath(p)

    def exists(self, p):
        try:
            a = self.abspath(p)
        except Exception:
            return False
        f = self.files.get(a)
        if f is not None:
            return bool(f.exists)        # forks when symbolic
        return a in self.dirs

    def isdir(self, p):
        return self.abspath(p) in self.dirs

    def isfile(self, p):
        f = self.files.get(self.abspath(p))
        return f is not None and bool(f.exists)

    def getsize(self, p):
        a = self.abspath(p)
        f = self.files.get(a)
        if f is None or not bool(f.exists):
            raise FileNotFoundError(2, 'No such file or directory', p)
        if f.kind == 'gap':
            return GapSize(f.marker)
        if f.kind == 'text':
            return len(f.content.encode('utf-8'))
        if f.kind == 'written':
            return sum(len(c) for c in f.content)
        return len(f.content)

    def open(self, p, mode='r', *a, **kw):
        ab = self.abspath(p)
        self.opened.append((ab, mode))
        if 'w' in mode or 'a' in mode or '+' in mode:
            return _Writer(self, ab, 'b' in mode)
        f = self.files.get(ab)
        if f is None or not bool(f.exists):
            raise FileNotFoundError(2, 'No such file or directory', p)
        if f.kind == 'gap':
            if 'b' not in mode:
                raise EngineLimit('gap file opened in text mode')
            return _Reader(SymBytes([Seg('opaque', fid=f.marker, off=0, count=Markers.table[f.marker])]))
        if f.kind == 'text':
            return _Reader(f.content if 'b' not in mode else f.content.encode('utf-8'))
        if f.kind == 'written':
            data = b''.join(f.content) if f.content and isinstance(f.content[0], bytes) else ''.join(f.content)
            return _Reader(data)
        return _Reader(f.content if 'b' in mode else f.content.decode('utf-8'))

    def install(self, mod):
        mod.os = OsProxy(self)
        mod.open = self.open
        return mod


class _PathProxy:
    def __init__(self, vfs):
        self._v = vfs

    def __getattr__(self, name):
        return getattr(posixpath, name)

    def abspath(self, p):
        return self._v.abspath(p)

    def exists(self, p):
        return self._v.exists(p)

    def isdir(self, p):
        return self._v.isdir(p)

    def isfile(self, p):
        return self._v.isfile(p)

    def getsize(self, p):
        return self._v.getsize(p)

    def realpath(self, p):
        return self._v.abspath(p)


class OsProxy:
    """stands in for the ``os`` module: pure helpers pass through, file-system access goes to the
    virtual tree, anything else is an engine limit (never the real file system)"""
    PURE = {'sep', 'linesep', 'pathsep', 'curdir', 'pardir', 'extsep', 'altsep', 'name', 'devnull', 'fspath', 'fsencode',
            'fsdecode', 'getpid', 'strerror', 'error', 'PathLike', 'cpu_count', 'urandom', 'getenv', 'environ'}

    def __init__(self, vfs):
        self._v = vfs
        self.path = _PathProxy(vfs)
        self._fds = {}

    def getcwd(self):
        return self._v.cwd

    def open(self, path, flags, mode=0o777, **kw):
        """os.open for writing: returns a fake descriptor remembering whether O_TRUNC was given"""
        if not (flags & (_os.O_WRONLY | _os.O_RDWR)):
            raise EngineLimit('os.open for reading is not modelled')
        ab = self._v.abspath(path)
        if not (flags & _os.O_CREAT) and not self._v.exists(ab):
            raise FileNotFoundError(2, 'No such file or directory', path)
        fd = 1000 + len(self._fds)
        self._fds[fd] = (ab, bool(flags & _os.O_TRUNC), bool(flags & _os.O_APPEND))
        self._v.writes.append(('open-w', ab))
        return fd

    def fdopen(self, fd, mode='r', *a, **kw):
        ab, trunc, append = self._fds[fd]
        old = self._v.files.get(ab)
        w = _Writer(self._v, ab, 'b' in mode)
        if not trunc and old is not None and old.kind in ('bytes', 'text', 'written'):
            # not truncated: whatever the old file held beyond the newly written bytes stays
            w.chunks.append(('OLD-CONTENT-NOT-TRUNCATED', old.kind))
        return w

    def close(self, fd):
        self._fds.pop(fd, None)

    def __getattr__(self, name):
        if name in OsProxy.PURE or (name.startswith('O_') and name.isupper()) or name.startswith('SEEK_'):
            return getattr(_os, name)
        raise EngineLimit('os.%s is not modelled by the virtual file system' % name)

"""Symbolic byte strings: a list of segments with possibly symbolic lengths."""
from . import core
from .core import SymInt, EngineLimit, _path


class Seg:
    __slots__ = ('kind', 'data', 'n', 'endian', 'value', 'signed', 'count', 'fid', 'off')

    def __init__(self, kind, **kw):
        self.kind = kind
        self.data = self.n = self.endian = self.value = self.signed = self.count = self.fid = None
        self.off = 0
        for k, v in kw.items():
            setattr(self, k, v)

    def length(self):
        if self.kind == 'lit':
            return len(self.data)
        if self.kind == 'int':
            return self.n
        return self.count

    def __repr__(self):
        if self.kind == 'lit':
            return 'lit(%s)' % self.data.hex()
        if self.kind == 'int':
            return 'int%d%s(%r)' % (self.n, self.endian, self.value)
        if self.kind == 'zeros':
            return 'zeros(%r)' % (self.count,)
        return 'opaque(%s,+%r,%r)' % (self.fid, self.off, self.count)


class SymBytes:
    """immutable symbolic bytes"""

    def __init__(self, segs=()):
        self.segs = list(segs)

    @staticmethod
    def of(x):
        if isinstance(x, SymBytes):
            return x
        if isinstance(x, SymByteArray):
            return SymBytes(x.segs)
        if isinstance(x, (bytes, bytearray)):
            return SymBytes([Seg('lit', data=bytes(x))] if len(x) else [])
        raise EngineLimit('cannot view %r as bytes' % type(x).__name__)

    def length(self):
        n = 0
        for s in self.segs:
            n = n + s.length()
        return n

    def __add__(self, o):
        if isinstance(o, (bytes, bytearray, SymBytes, SymByteArray)):
            return SymBytes(self.segs + SymBytes.of(o).segs)
        return NotImplemented

    def __radd__(self, o):
        if isinstance(o, (bytes, bytearray)):
            return SymBytes(SymBytes.of(o).segs + self.segs)
        return NotImplemented

    def __len__(self):
        n = self.length()
        if isinstance(n, SymInt):
            _path().flag('builtin len() of symbolic-length bytes')
            raise EngineLimit('builtin len() of symbolic-length bytes')
        return n

    def __eq__(self, o):
        _path().flag('== on symbolic bytes')
        raise EngineLimit('== on symbolic bytes')

    __hash__ = object.__hash__

    def is_concrete(self):
        return all(s.kind == 'lit' for s in self.segs)

    def to_bytes(self):
        assert self.is_concrete()
        return b''.join(s.data for s in self.segs)

    def __repr__(self):
        return 'SymBytes(%s)' % ', '.join(map(repr, self.segs))


class SymByteArray:
    """stands in for bytearray() where symbolic chunks are appended"""

    def __init__(self, init=b''):
        self.segs = list(SymBytes.of(init).segs) if not isinstance(init, int) else [Seg('zeros', count=init)]

    def extend(self, x):
        self.segs.extend(SymBytes.of(x).segs)

    def __iadd__(self, x):
        self.extend(x)
        return self

    def length(self):
        return SymBytes(self.segs).length()

    def __len__(self):
        return len(SymBytes(self.segs))

    def __repr__(self):
        return 'SymByteArray(%s)' % ', '.join(map(repr, self.segs))


def zeros(count):
    return SymBytes([Seg('zeros', count=count)])


def _symint_mul(self, o, _orig=SymInt.__mul__):
    if isinstance(o, (bytes, bytearray)):
        if bytes(o) == b'\x00':
            return zeros(self)
        _path().flag('repeat of a non-zero byte pattern a symbolic number of times')
        raise EngineLimit('bytes * symbolic')
    return _orig(self, o)


SymInt.__mul__ = _symint_mul
SymInt.__rmul__ = _symint_mul


def sym_len(x, _len=len):
    if isinstance(x, (SymBytes, SymByteArray)):
        return x.length()
    return _len(x)


def concretize(x, model, opaque=None):
    """bytes for SymBytes under a model. opaque(fid, off, n) -> bytes"""
    out = bytearray()
    for s in SymBytes.of(x).segs:
        if s.kind == 'lit':
            out += s.data
        elif s.kind == 'int':
            v = core.concrete(s.value, model)
            out += (v % (1 << (8 * s.n))).to_bytes(s.n, 'little' if s.endian == '<' else 'big')
        elif s.kind == 'zeros':
            out += b'\x00' * core.concrete(s.count, model)
        else:
            n = core.concrete(s.count, model)
            off = core.concrete(s.off, model)
            out += opaque(s.fid, off, n) if opaque else b'\xaa' * n
    return bytes(out)

"""Symbolic byte strings: a list of segments with possibly symbolic lengths."""
from . import core
from .core import SymInt, EngineLimit, _path


class Seg:
    __slots__ = ('kind', 'data', 'n', 'endian', 'value', 'signed', 'count', 'fid', 'off')

    def __init__(self, kind, **kw):
        self.kind = kind
        self.data = self.n = self.endian = self.value = self.signed = self.count = self.fid = None
        self.off = 0
        for k, v in kw.items():
            setattr(self, k, v)

    def length(self):
        if self.kind == 'lit':
            return len(self.data)
        if self.kind == 'int':
            return self.n
        return self.count

    def __repr__(self):
        if self.kind == 'lit':
            return 'lit(%s)' % self.data.hex()
        if self.kind == 'int':
            return 'int%d%s(%r)' % (self.n, self.endian, self.value)
        if self.kind == 'zeros':
            return 'zeros(%r)' % (self.count,)
        return 'opaque(%s,+%r,%r)' % (self.fid, self.off, self.count)


class SymBytes:
    """immutable symbolic bytes"""

    def __init__(self, segs=()):
        self.segs = list(segs)

    @staticmethod
    def of(x):
        if isinstance(x, SymBytes):
            return x
        if isinstance(x, SymByteArray):
            return SymBytes(x.segs)
        if isinstance(x, (bytes, bytearray)):
            return SymBytes([Seg('lit', data=bytes(x))] if len(x) else [])
        raise EngineLimit('cannot view %r as bytes' % type(x).__name__)

    def length(self):
        n = 0
        for s in self.segs:
            n = n + s.length()
        return n

    def __add__(self, o):
        if isinstance(o, (bytes, bytearray, SymBytes, SymByteArray)):
            return SymBytes(self.segs + SymBytes.of(o).segs)
        return NotImplemented

    def __radd__(self, o):
        if isinstance(o, (bytes, bytearray)):
            return SymBytes(SymBytes.of(o).segs + self.segs)
        return NotImplemented

    def __len__(self):
        n = self.length()
        if isinstance(n, SymInt):
            _path().flag('builtin len() of symbolic-length bytes')
            raise EngineLimit('builtin len() of symbolic-length bytes')
        return n

    def _flat(self):
        """per-byte values (int | z3 8-bit expression); needs concrete lengths and no opaque content"""
        import z3
        out = []
        for s in self.segs:
            if s.kind == 'lit':
                out.extend(s.data)
            elif s.kind == 'int' and isinstance(s.n, int):
                v = s.value
                if isinstance(v, SymInt):
                    e = v.bv(8 * s.n)
                    bs = [z3.Extract(8 * k + 7, 8 * k, e) for k in range(s.n)]
                else:
                    bs = list((v % (1 << (8 * s.n))).to_bytes(s.n, 'little'))
                out.extend(bs if s.endian == '<' else bs[::-1])
            elif s.kind == 'zeros' and isinstance(s.count, int):
                out.extend([0] * s.count)
            else:
                _path().flag('== on symbolic bytes of symbolic length / opaque content')
                raise EngineLimit('== on symbolic bytes of symbolic length / opaque content')
        return out

    def __iter__(self):
        """byte values (int | SymInt); needs concrete lengths"""
        from .core import from_bv_unsigned
        for b in self._flat():
            yield b if isinstance(b, int) else from_bv_unsigned(b)

    def _equals(self, o):
        import z3
        if not isinstance(o, (bytes, bytearray, SymBytes, SymByteArray)):
            return False
        a, b = self._flat(), SymBytes.of(o)._flat()
        if len(a) != len(b):
            return False
        conds = []
        for x, y in zip(a, b):
            if isinstance(x, int) and isinstance(y, int):
                if x != y:
                    return False
                continue
            xe = x if not isinstance(x, int) else z3.BitVecVal(x, 8)
            ye = y if not isinstance(y, int) else z3.BitVecVal(y, 8)
            if xe.eq(ye):
                continue
            conds.append(xe == ye)
        if not conds:
            return True
        return bool(core.SymBool(z3.And(*conds)))       # forks

    def __eq__(self, o):
        return self._equals(o)

    def __ne__(self, o):
        return not self._equals(o)

    __hash__ = object.__hash__

    def take(self, n):
        """first n bytes (n concrete); a multi-byte integer is never split"""
        out, left = [], n
        for s in self.segs:
            if left <= 0:
                break
            ln = s.length()
            if isinstance(ln, SymInt):
                raise EngineLimit('prefix of bytes with a symbolic-length segment')
            if ln <= left:
                out.append(s)
                left -= ln
            elif s.kind == 'lit':
                out.append(Seg('lit', data=s.data[:left]))
                left = 0
            elif s.kind == 'zeros':
                out.append(Seg('zeros', count=left))
                left = 0
            else:
                raise EngineLimit('prefix of bytes splits an integer / opaque segment')
        return SymBytes(out)

    def is_concrete(self):
        return all(s.kind == 'lit' for s in self.segs)

    def to_bytes(self):
        assert self.is_concrete()
        return b''.join(s.data for s in self.segs)

    def __repr__(self):
        return 'SymBytes(%s)' % ', '.join(map(repr, self.segs))


class SymByteArray:
    """stands in for bytearray() where symbolic chunks are appended"""

    def __init__(self, init=b''):
        self.segs = list(SymBytes.of(init).segs) if not isinstance(init, int) else [Seg('zeros', count=init)]

    def extend(self, x):
        self.segs.extend(SymBytes.of(x).segs)

    def __iadd__(self, x):
        self.extend(x)
        return self

    def clear(self):
        del self.segs[:]

    def copy(self):
        r = SymByteArray()
        r.segs = list(self.segs)
        return r

    def length(self):
        return SymBytes(self.segs).length()

    def __len__(self):
        return len(SymBytes(self.segs))

    def __iter__(self):
        return iter(SymBytes(self.segs))

    def __eq__(self, o):
        return SymBytes(self.segs)._equals(o)

    def __ne__(self, o):
        return not SymBytes(self.segs)._equals(o)

    __hash__ = object.__hash__

    def __repr__(self):
        return 'SymByteArray(%s)' % ', '.join(map(repr, self.segs))


def zeros(count):
    return SymBytes([Seg('zeros', count=count)])


def _symint_mul(self, o, _orig=SymInt.__mul__):
    if isinstance(o, (bytes, bytearray)):
        if bytes(o) == b'\x00':
            return zeros(self)
        _path().flag('repeat of a non-zero byte pattern a symbolic number of times')
        raise EngineLimit('bytes * symbolic')
    return _orig(self, o)


SymInt.__mul__ = _symint_mul
SymInt.__rmul__ = _symint_mul


def sym_len(x, _len=len):
    if isinstance(x, (SymBytes, SymByteArray)):
        return x.length()
    return _len(x)


def concretize(x, model, opaque=None):
    """bytes for SymBytes under a model. opaque(fid, off, n) -> bytes"""
    out = bytearray()
    for s in SymBytes.of(x).segs:
        if s.kind == 'lit':
            out += s.data
        elif s.kind == 'int':
            v = core.concrete(s.value, model)
            out += (v % (1 << (8 * s.n))).to_bytes(s.n, 'little' if s.endian == '<' else 'big')
        elif s.kind == 'zeros':
            out += b'\x00' * core.concrete(s.count, model)
        else:
            n = core.concrete(s.count, model)
            off = core.concrete(s.off, model)
            out += opaque(s.fid, off, n) if opaque else b'\xaa' * n
    return bytes(out)

"""symx core: proxy-object symbolic execution of unmodified Python code with z3.

SymInt denotes an exact (unbounded) Python integer for every assignment of the
declared input variables: every value carries a conservative interval [lo, hi]
and is stored as a signed bit-vector wide enough for that interval, so no
operation can wrap.  Branching on a symbolic condition asks the active
``Path`` for a decision; all feasible decision sequences are explored by
re-execution (depth first).
"""
import builtins
import sys
import time

import z3


# ---------------------------------------------------------------------------
# every z3.Solver of the harness: an 'unknown' that is a timeout gets one more attempt with four times
# the budget (a busy machine must not turn a decided obligation into an inconclusive one)
# ---------------------------------------------------------------------------
_solver_set, _solver_check = z3.Solver.set, z3.Solver.check


def _set_recording(self, *a, **k):
    if len(a) == 2 and a[0] == 'timeout':
        self._verif_timeout = a[1]
    if 'timeout' in k:
        self._verif_timeout = k['timeout']
    return _solver_set(self, *a, **k)


def _check_retrying(self, *a):
    r = _solver_check(self, *a)
    to = getattr(self, '_verif_timeout', None)
    if r == z3.unknown and to and self.reason_unknown() in ('timeout', 'canceled'):
        _solver_set(self, 'timeout', to * 4)
        try:
            r = _solver_check(self, *a)
        finally:
            _solver_set(self, 'timeout', to)
    return r


z3.Solver.set = _set_recording
z3.Solver.check = _check_retrying

SLOWQ = float(__import__('os').environ.get('VERIF_SLOWQ', '1e9'))

#: search-order hint for the next decisions (None | True | False); never changes what is explored, only when
PREFER = [None]


class EngineLimit(BaseException):
    """The real code did something this engine cannot model. The path is
    inconclusive (never 'passed')."""


class Inconclusive(Exception):
    pass


def _bits(lo, hi):
    """smallest signed width holding both lo and hi"""
    w = 1
    for v in (lo, hi):
        if v >= 0:
            w = max(w, v.bit_length() + 1)
        else:
            w = max(w, (-v - 1).bit_length() + 1)
    return w


def _sx(e, w):
    n = e.size()
    if n == w:
        return e
    if n < w:
        return z3.SignExt(w - n, e)
    return z3.Extract(w - 1, 0, e)


class Stats:
    def __init__(self):
        self.queries = 0
        self.solver_time = 0.0
        self.unknown = 0
        self.paths = 0
        self.decisions = 0
        self.engine_limits = 0


class Path:
    """One execution path. ``Path.cur`` is the path being executed."""
    cur = None

    def __init__(self, explorer, prefix, model):
        self.x = explorer
        self.solver = explorer.solver
        self.prefix = prefix
        self.model = model
        self.trace = []
        self.new_pending = []
        self.flagged = None      # EngineLimit message if one was raised (even if swallowed)
        self.unknown = 0
        self.notes = {}
        self.nvars = 0
        self.decided = {}
        self._keep = []

    # -- variables -------------------------------------------------------
    def int(self, name, bits=None, lo=None, hi=None):
        """declare a symbolic integer input. Either signed ``bits`` or [lo,hi]"""
        if bits is not None:
            lo, hi = -(1 << (bits - 1)), (1 << (bits - 1)) - 1
            constrain = False
        else:
            constrain = True
        w = _bits(lo, hi)
        e = z3.BitVec(name, w)
        v = SymInt(e, lo, hi)
        self.x.inputs[name] = v
        if constrain and (lo != -(1 << (w - 1)) or hi != (1 << (w - 1)) - 1):
            self.assume_z3(z3.And(e >= lo, e <= hi))
        return v

    def bool(self, name):
        b = z3.Bool(name)
        self.x.inputs[name] = SymBool(b)
        return SymBool(b)

    # -- constraints -----------------------------------------------------
    def assume_z3(self, c):
        self.solver.add(c)
        if len(self.trace) >= len(self.prefix):
            self.model = None

    def assume(self, cond):
        if isinstance(cond, SymBool):
            self.assume_z3(cond.b)
        elif not cond:
            raise Inconclusive('assumption concretely false')

    def _check(self, *extra):
        t0 = time.time()
        r = self.solver.check(*extra)
        self.x.stats.queries += 1
        dt = time.time() - t0
        self.x.stats.solver_time += dt
        if dt > SLOWQ:
            import sys
            sys.stderr.write('SLOWQ %.1fs %s\n' % (dt, r))
        return r

    def _ensure_model(self):
        if self.model is None:
            r = self._check()
            if r == z3.sat:
                self.model = self.solver.model()
            elif r == z3.unsat:
                raise InfeasiblePath()
            else:
                self.unknown += 1
                self.x.stats.unknown += 1
                raise EngineLimit('solver unknown on path condition')

    def decide(self, c):
        """c: z3 BoolRef. Returns the Python bool this path takes."""
        c = z3.simplify(c)
        if z3.is_true(c):
            return True
        if z3.is_false(c):
            return False
        key = c.get_id()
        if key in self.decided:
            return self.decided[key]
        i = len(self.trace)
        self.x.stats.decisions += 1
        if i < len(self.prefix):
            d = self.prefix[i]
            self.trace.append(d)
            self.solver.add(c if d else z3.Not(c))
            self._remember(c, d)
            return d
        self._ensure_model()
        d = z3.is_true(self.model.eval(c, model_completion=True))
        other = z3.Not(c) if d else c
        self.solver.push()
        self.solver.add(other)
        r = self._check()
        if r == z3.sat:
            if PREFER[0] is not None and d != PREFER[0]:
                # search-order hint: go down the preferred branch now, keep the model's branch for later
                self.new_pending.append((self.trace + [d], self.model))
                self.model = self.solver.model()
                d = not d
            else:
                self.new_pending.append((self.trace + [not d], self.solver.model()))
        elif r == z3.unknown:
            self.unknown += 1
            self.x.stats.unknown += 1
        self.solver.pop()
        self.solver.add(c if d else z3.Not(c))
        self.trace.append(d)
        self._remember(c, d)
        if len(self.trace) > self.x.max_depth:
            self.flag('decision depth limit %d exceeded' % self.x.max_depth)
            raise EngineLimit(self.flagged)
        return d

    def _remember(self, c, d):
        # ASTs are hash-consed: the same condition asked again on this path is not a new decision
        self.decided[c.get_id()] = d
        self._keep.append(c)
        n = z3.simplify(z3.Not(c))
        self.decided[n.get_id()] = not d
        self._keep.append(n)

    def flag(self, msg):
        if self.flagged is None:
            self.flagged = msg
            self.x.stats.engine_limits += 1

    # -- queries after / during the path --------------------------------
    def sat(self, cond):
        """is path-condition AND cond satisfiable?  returns ('sat', model) /
        ('unsat', None) / ('unknown', None)"""
        if isinstance(cond, SymBool):
            cond = cond.b
        elif isinstance(cond, bool):
            cond = z3.BoolVal(cond)
        c = z3.simplify(cond)
        if z3.is_false(c):
            return 'unsat', None
        self.solver.push()
        self.solver.add(c)
        r = self._check()
        m = self.solver.model() if r == z3.sat else None
        self.solver.pop()
        if r == z3.unknown:
            self.x.stats.unknown += 1
        return str(r), m

    def witness(self):
        self._ensure_model()
        return self.model

    def pc_assertions(self):
        return list(self.solver.assertions())


class InfeasiblePath(BaseException):
    pass


class Explorer:
    """Depth-first exploration by re-execution."""

    def __init__(self, timeout_ms=60000, max_paths=20000, max_depth=4000, seed=0):
        self.solver = z3.SolverFor('QF_ABV') if False else z3.Solver()
        self.solver.set('timeout', timeout_ms)
        self.timeout_ms = timeout_ms
        self.solver.set('random_seed', seed & 0x7fffffff)
        self.stats = Stats()
        self.inputs = {}
        self.max_paths = max_paths
        self.max_depth = max_depth
        self.truncated = False

    def run(self, fn):
        """generator of (path, kind, value): kind in 'ok' | 'exc' | 'limit'.
        The solver holds the path condition while the consumer looks at it."""
        pending = [([], None)]
        while pending:
            if self.stats.paths >= self.max_paths:
                self.truncated = True
                return
            prefix, model = pending.pop()
            p = Path(self, prefix, model)
            self.solver.push()
            prev = Path.cur
            Path.cur = p
            try:
                try:
                    val = fn(p)
                    kind = 'ok'
                except InfeasiblePath:
                    kind = 'infeasible'
                    val = None
                except EngineLimit as e:
                    kind = 'limit'
                    val = str(e)
                    p.flag(str(e))
                except (Exception, SystemExit) as e:  # outcome of the real code
                    kind = 'exc'
                    val = e
                if p.flagged is not None and kind != 'infeasible':
                    kind, val = 'limit', p.flagged
                pending.extend(p.new_pending)
                if kind != 'infeasible':
                    self.stats.paths += 1
                    yield p, kind, val
            finally:
                Path.cur = prev
                self.solver.pop()


def _path():
    p = Path.cur
    if p is None:
        raise RuntimeError('symbolic value used outside an exploration')
    return p


# ----------------------------------------------------------------------------
# SymBool
# ----------------------------------------------------------------------------
class SymBool:
    __slots__ = ('b',)

    def __init__(self, b):
        self.b = b

    def __bool__(self):
        return _path().decide(self.b)

    def __and__(self, o):
        o = _tobool(o)
        return NotImplemented if o is None else SymBool(z3.And(self.b, o))
    __rand__ = __and__

    def __or__(self, o):
        o = _tobool(o)
        return NotImplemented if o is None else SymBool(z3.Or(self.b, o))
    __ror__ = __or__

    def __xor__(self, o):
        o = _tobool(o)
        return NotImplemented if o is None else SymBool(z3.Xor(self.b, o))
    __rxor__ = __xor__

    def __invert__(self):
        raise EngineLimit('~ on a symbolic bool')

    def __eq__(self, o):
        ob = _tobool(o)
        if ob is None:
            return self.as_int() == o
        return SymBool(self.b == ob)

    def __ne__(self, o):
        r = self.__eq__(o)
        return SymBool(z3.Not(r.b)) if isinstance(r, SymBool) else (not r)

    __hash__ = object.__hash__

    def as_int(self):
        return SymInt(z3.If(self.b, z3.BitVecVal(1, 2), z3.BitVecVal(0, 2)), 0, 1)

    def __int__(self):
        return 1 if bool(self) else 0

    def __repr__(self):
        return '<SymBool>'


def _tobool(o):
    if isinstance(o, SymBool):
        return o.b
    if isinstance(o, bool):
        return z3.BoolVal(o)
    return None


def Not(x):
    if isinstance(x, SymBool):
        return SymBool(z3.Not(x.b))
    return not x


def And(*xs):
    zs = []
    for x in xs:
        if isinstance(x, SymBool):
            zs.append(x.b)
        elif not x:
            return False
    if not zs:
        return True
    return SymBool(z3.And(*zs))


def Or(*xs):
    zs = []
    for x in xs:
        if isinstance(x, SymBool):
            zs.append(x.b)
        elif x:
            return True
    if not zs:
        return False
    return SymBool(z3.Or(*zs))


def Implies(a, b):
    return Or(Not(a), b)


# ----------------------------------------------------------------------------
# SymInt
# ----------------------------------------------------------------------------
def _co(o):
    """coerce to (z3 expr, lo, hi) or None"""
    if isinstance(o, SymInt):
        return o.e, o.lo, o.hi
    if isinstance(o, bool):
        o = int(o)
    if type(o) is int:
        return z3.BitVecVal(o, _bits(o, o)), o, o
    if isinstance(o, int):          # int subclasses (enum.IntEnum members, ...) count with their value
        o = int(o)
        return z3.BitVecVal(o, _bits(o, o)), o, o
    if isinstance(o, SymBool):
        i = o.as_int()
        return i.e, 0, 1
    return None


class SymInt:
    __slots__ = ('e', 'lo', 'hi')

    def __init__(self, e, lo, hi):
        w = _bits(lo, hi)
        if e.size() != w:
            e = _sx(e, w)
        self.e = e
        self.lo = lo
        self.hi = hi

    @property
    def w(self):
        return self.e.size()

    # -- helpers ---------------------------------------------------------
    @staticmethod
    def _mk(e, lo, hi):
        if lo == hi:
            return lo
        return SymInt(e, lo, hi)

    def _bin(self, o, f, lo, hi, extra=0):
        """apply f at a width that holds operands and result"""
        w = max(_bits(lo, hi), self.e.size(), o[0].size()) + extra
        return SymInt._mk(f(_sx(self.e, w), _sx(o[0], w)), lo, hi)

    # -- arithmetic ------------------------------------------------------
    def __add__(self, o):
        o = _co(o)
        if o is None:
            return NotImplemented
        return self._bin(o, lambda a, b: a + b, self.lo + o[1], self.hi + o[2])
    __radd__ = __add__

    def __sub__(self, o):
        o = _co(o)
        if o is None:
            return NotImplemented
        return self._bin(o, lambda a, b: a - b, self.lo - o[2], self.hi - o[1])

    def __rsub__(self, o):
        o = _co(o)
        if o is None:
            return NotImplemented
        return self._bin(o, lambda a, b: b - a, o[1] - self.hi, o[2] - self.lo)

    def __neg__(self):
        return 0 - self

    def __pos__(self):
        return self

    def __abs__(self):
        return ite(self < 0, -self, self)

    def __mul__(self, o):
        o = _co(o)
        if o is None:
            return NotImplemented
        if o[1] != o[2] and self.lo != self.hi:
            if not Path.cur.x.allow_symmul:
                _path().flag('symbolic * symbolic')
                raise EngineLimit('symbolic * symbolic')
        c = [self.lo * o[1], self.lo * o[2], self.hi * o[1], self.hi * o[2]]
        return self._bin(o, lambda a, b: a * b, min(c), max(c))
    __rmul__ = __mul__

    def __lshift__(self, k):
        if type(k) is not int:
            _path().flag('symbolic shift amount')
            raise EngineLimit('symbolic shift amount')
        if k < 0:
            raise ValueError('negative shift count')
        return self * (1 << k)

    def __rlshift__(self, o):
        _path().flag('symbolic shift amount')
        raise EngineLimit('symbolic shift amount')

    def __rshift__(self, k):
        if type(k) is not int:
            _path().flag('symbolic shift amount')
            raise EngineLimit('symbolic shift amount')
        if k < 0:
            raise ValueError('negative shift count')
        if k == 0:
            return self
        w = self.e.size()
        if k >= w:
            e = z3.If(self.e < 0, z3.BitVecVal(-1, 2), z3.BitVecVal(0, 2))
            return SymInt._mk(e, self.lo >> k, self.hi >> k)
        e = z3.Extract(w - 1, k, self.e)      # arithmetic shift, floor semantics
        return SymInt._mk(e, self.lo >> k, self.hi >> k)

    def __rrshift__(self, o):
        _path().flag('symbolic shift amount')
        raise EngineLimit('symbolic shift amount')

    def __and__(self, o):
        o = _co(o)
        if o is None:
            return NotImplemented
        # bounds
        if o[1] == o[2] and o[1] >= 0:
            lo, hi = 0, o[1]
        elif self.lo >= 0 and o[1] >= 0:
            lo, hi = 0, min(self.hi, o[2])
        elif self.lo >= 0:
            lo, hi = 0, self.hi
        elif o[1] >= 0:
            lo, hi = 0, o[2]
        else:
            w = max(self.e.size(), o[0].size())
            lo, hi = -(1 << (w - 1)), (1 << (w - 1)) - 1
        return self._bin(o, lambda a, b: a & b, lo, hi)
    __rand__ = __and__

    def _orxor(self, o, f):
        o = _co(o)
        if o is None:
            return NotImplemented
        w = max(self.e.size(), o[0].size())
        if self.lo >= 0 and o[1] >= 0:
            lo, hi = 0, (1 << (w - 1)) - 1
        else:
            lo, hi = -(1 << (w - 1)), (1 << (w - 1)) - 1
        return self._bin(o, f, lo, hi)

    def __or__(self, o):
        return self._orxor(o, lambda a, b: a | b)
    __ror__ = __or__

    def __xor__(self, o):
        return self._orxor(o, lambda a, b: a ^ b)
    __rxor__ = __xor__

    def __invert__(self):
        return -1 - self

    def __mod__(self, n):
        if isinstance(n, SymInt):
            return _symmod(self, n)
        if type(n) is not int:
            return NotImplemented
        if n == 0:
            raise ZeroDivisionError('integer modulo by zero')
        if n < 0:
            _path().flag('modulo by negative constant')
            raise EngineLimit('modulo by negative constant')
        if n & (n - 1) == 0:
            return self & (n - 1)
        w = max(self.e.size(), _bits(n, n)) + 1
        a = _sx(self.e, w)
        nn = z3.BitVecVal(n, w)
        r = z3.SRem(a, nn)
        r = z3.If(r < 0, r + nn, r)
        return SymInt._mk(r, 0, n - 1)

    def __rmod__(self, o):
        if type(o) is int:
            return _symmod(o, self)
        return NotImplemented

    def __floordiv__(self, n):
        if type(n) is not int:
            if isinstance(n, SymInt):
                _path().flag('symbolic // symbolic')
                raise EngineLimit('symbolic // symbolic')
            return NotImplemented
        if n == 0:
            raise ZeroDivisionError('integer division or modulo by zero')
        if n < 0:
            _path().flag('division by negative constant')
            raise EngineLimit('division by negative constant')
        if n & (n - 1) == 0:
            return self >> (n.bit_length() - 1)
        w = max(self.e.size(), _bits(n, n)) + 1
        a = _sx(self.e, w)
        nn = z3.BitVecVal(n, w)
        q = a / nn          # bvsdiv truncates
        r = z3.SRem(a, nn)
        q = z3.If(r < 0, q - 1, q)
        return SymInt._mk(q, self.lo // n, self.hi // n)

    def __rfloordiv__(self, o):
        _path().flag('constant // symbolic')
        raise EngineLimit('constant // symbolic')

    def __divmod__(self, n):
        return self // n, self % n

    def __truediv__(self, n):
        if type(n) is int and n > 0:
            return SymFrac(self, n)
        _path().flag('true division')
        raise EngineLimit('true division')

    def __pow__(self, k):
        if type(k) is int and 0 <= k <= 4:
            r = 1
            for _ in range(k):
                r = r * self
            return r
        _path().flag('symbolic power')
        raise EngineLimit('symbolic power')

    def __rpow__(self, o):
        _path().flag('symbolic exponent')
        raise EngineLimit('symbolic exponent')

    # -- comparisons -----------------------------------------------------
    def _cmp(self, o, f, lo_true, lo_false):
        o = _co(o)
        if o is None:
            return NotImplemented
        w = max(self.e.size(), o[0].size())
        return SymBool(f(_sx(self.e, w), _sx(o[0], w)))

    def __lt__(self, o):
        c = _co(o)
        if c is None:
            return NotImplemented
        if self.hi < c[1]:
            return True
        if self.lo >= c[2]:
            return False
        return self._cmp(o, lambda a, b: a < b, None, None)

    def __le__(self, o):
        c = _co(o)
        if c is None:
            return NotImplemented
        if self.hi <= c[1]:
            return True
        if self.lo > c[2]:
            return False
        return self._cmp(o, lambda a, b: a <= b, None, None)

    def __gt__(self, o):
        c = _co(o)
        if c is None:
            return NotImplemented
        if self.lo > c[2]:
            return True
        if self.hi <= c[1]:
            return False
        return self._cmp(o, lambda a, b: a > b, None, None)

    def __ge__(self, o):
        c = _co(o)
        if c is None:
            return NotImplemented
        if self.lo >= c[2]:
            return True
        if self.hi < c[1]:
            return False
        return self._cmp(o, lambda a, b: a >= b, None, None)

    def __eq__(self, o):
        c = _co(o)
        if c is None:
            return False
        if self.hi < c[1] or self.lo > c[2]:
            return False
        return self._cmp(o, lambda a, b: a == b, None, None)

    def __ne__(self, o):
        c = _co(o)
        if c is None:
            return True
        if self.hi < c[1] or self.lo > c[2]:
            return True
        return self._cmp(o, lambda a, b: a != b, None, None)

    __hash__ = object.__hash__

    def __bool__(self):
        return bool(self != 0)

    # -- conversions the real code may attempt ---------------------------
    def __index__(self):
        _path().flag('symbolic int needed as a concrete index (__index__)')
        raise EngineLimit('symbolic int needed as a concrete index (__index__)')

    def __int__(self):
        return self.__index__()

    def __deepcopy__(self, memo):
        return self

    def __copy__(self):
        return self

    def __format__(self, spec):
        if not spec:
            return str(self)
        hook = FMT_HOOK[0]
        return hook(self, spec) if hook else '<sym:%s>' % spec

    def __str__(self):
        # "some decimal spelling of this integer": a token that the int()/eval() stubs of
        # the shimmed module map back to this very value (eval(str(n)) == n for ints)
        hook = STR_HOOK[0]
        return hook(self) if hook else '<sym>'

    def __repr__(self):
        return '<SymInt w=%d [%d,%d]>' % (self.e.size(), self.lo, self.hi)

    # -- engine side -------------------------------------------------------
    def bv(self, w):
        """two's complement of this integer in w bits (wraps if it does not fit)"""
        return _sx(self.e, w)

    def ev(self, model):
        return model.eval(self.e, model_completion=True).as_signed_long()


def _symmod(a, n):
    """a % n with symbolic n (a int or SymInt); n > 0 is required (forks)."""
    p = _path()
    if not p.x.allow_symmod:
        p.flag('symbolic modulus')
        raise EngineLimit('symbolic modulus')
    if n == 0:
        raise ZeroDivisionError('integer modulo by zero')
    if n < 0:
        p.flag('symbolic negative modulus')
        raise EngineLimit('symbolic negative modulus')
    ac = _co(a)
    w = max(ac[0].size(), n.e.size()) + 1
    ae, ne = _sx(ac[0], w), _sx(n.e, w)
    r = z3.SRem(ae, ne)
    r = z3.If(r < 0, r + ne, r)
    return SymInt._mk(r, 0, n.hi - 1)


STR_HOOK = [None]
FMT_HOOK = [None]


class SymFrac:
    """SymInt / positive constant (only produced by true division)"""

    def __init__(self, num, den):
        self.num = num
        self.den = den

    def __repr__(self):
        return '<SymFrac /%d>' % self.den


def from_bv_unsigned(e):
    """SymInt for the unsigned reading of bit-vector e"""
    w = e.size()
    return SymInt(z3.ZeroExt(1, e), 0, (1 << w) - 1)


def from_bv_signed(e):
    w = e.size()
    return SymInt(e, -(1 << (w - 1)), (1 << (w - 1)) - 1)


def ite(c, a, b):
    """SymInt-level if-then-else (no fork)"""
    if not isinstance(c, SymBool):
        return a if c else b
    ac, bc = _co(a), _co(b)
    lo, hi = min(ac[1], bc[1]), max(ac[2], bc[2])
    w = _bits(lo, hi)
    return SymInt._mk(z3.If(c.b, _sx(ac[0], w), _sx(bc[0], w)), lo, hi)


def concrete(v, model):
    """evaluate ints / SymInts / containers under a model"""
    if isinstance(v, SymInt):
        return v.ev(model)
    if isinstance(v, SymBool):
        return z3.is_true(model.eval(v.b, model_completion=True))
    if isinstance(v, (list, tuple)):
        return type(v)(concrete(x, model) for x in v)
    if isinstance(v, dict):
        return {k: concrete(x, model) for k, x in v.items()}
    return v


def is_sym(v):
    return isinstance(v, (SymInt, SymBool))


Explorer.allow_symmod = False
Explorer.allow_symmul = False

"""Loads /repo's bronzebeard.asm twice: once pristine (for replays) and once with
the environment stubs of DESIGN.md 1.2 assigned into the module namespace from
outside (no source change)."""
import builtins
import importlib.util
import os as _os
import re
import struct as _struct
import sys
import types

from . import core
from .core import SymInt, SymBool, EngineLimit, _path, from_bv_unsigned, from_bv_signed
from .symbytes import SymBytes, SymByteArray, Seg, sym_len
import z3

sys.dont_write_bytecode = True
REPO = _os.environ.get('VERIF_REPO', '/repo')
if REPO not in sys.path:
    sys.path.insert(0, REPO)

_counter = [0]


def load_module(relpath, tag, pre=None):
    """fresh module object executed from REPO/relpath (current working tree)"""
    _counter[0] += 1
    name = 'bbx_%s_%d' % (tag, _counter[0])
    path = _os.path.join(REPO, relpath)
    with open(path) as f:
        src = f.read()
    mod = types.ModuleType(name)
    mod.__file__ = path
    mod.__package__ = 'bronzebeard'
    if pre:
        pre(mod)
    sys.modules[name] = mod
    code = compile(src, path, 'exec')
    exec(code, mod.__dict__)
    return mod


def load_asm_pristine():
    return load_module('bronzebeard/asm.py', 'real')


# ---------------------------------------------------------------------------
# stubs
# ---------------------------------------------------------------------------
class _c_uint32:
    def __init__(self, x):
        if isinstance(x, SymInt):
            if x.lo >= 0 and x.hi < (1 << 32):
                self.value = x
            else:
                self.value = from_bv_unsigned(x.bv(32))
        else:
            self.value = x % (1 << 32)


class _c_int32:
    def __init__(self, x):
        if isinstance(x, SymInt):
            if x.lo >= -(1 << 31) and x.hi < (1 << 31):
                self.value = x
            else:
                self.value = from_bv_signed(x.bv(32))
        else:
            x = x % (1 << 32)
            self.value = x - (1 << 32) if x >= (1 << 31) else x


def _type(*a):
    if len(a) == 1:
        if isinstance(a[0], SymInt) or builtins.type(a[0]) is builtins.int:
            return _int      # the module's name ``int`` is bound to _int
        if isinstance(a[0], SymBool):
            return bool
    return builtins.type(*a)


class SymRegs(dict):
    """the real REGISTERS dict; a SymInt key forks on membership in the real
    integer keys and maps through the real values"""

    def _ranges(self):
        ikeys = sorted(kk for kk in dict.keys(self) if type(kk) is int)
        out = []
        for kk in ikeys:
            if out and out[-1][1] == kk - 1:
                out[-1][1] = kk
            else:
                out.append([kk, kk])
        return ikeys, out

    def _member(self, k):
        ikeys, ranges = self._ranges()
        return core.Or(*[core.And(k >= lo, k <= hi) for lo, hi in ranges])

    def __getitem__(self, k):
        if isinstance(k, SymInt):
            ikeys, ranges = self._ranges()
            if not self._member(k):
                raise KeyError(k)
            vals = [dict.__getitem__(self, kk) for kk in ikeys]
            if ikeys == list(range(32)) and vals == ikeys:
                return SymInt(z3.ZeroExt(1, z3.Extract(4, 0, k.bv(6))), 0, 31)
            r = vals[-1]
            for kk, vv in zip(reversed(ikeys[:-1]), reversed(vals[:-1])):
                r = core.ite(k == kk, vv, r)
            return r
        return dict.__getitem__(self, k)

    def __contains__(self, k):
        if isinstance(k, SymInt):
            return bool(self._member(k))
        return dict.__contains__(self, k)


def _seq_getitem(base, self, i):
    """a SymInt index into a module-level table of integers: fork on being in range (negative indices count
    from the end, as in Python), the value is the if-then-else chain over the entries"""
    if isinstance(i, SymInt):
        n = base.__len__(self)
        if n == 0 or not core.And(i >= -n, i < n):
            raise IndexError('index out of range')
        vals = [base.__getitem__(self, k) for k in range(n)]
        r = vals[-1]
        for k in range(n - 2, -1, -1):
            r = core.ite(core.Or(i == k, i == k - n), vals[k], r)
        return r
    return base.__getitem__(self, i)


class SymTuple(tuple):
    def __getitem__(self, i):
        return _seq_getitem(tuple, self, i)


class SymList(list):
    def __getitem__(self, i):
        return _seq_getitem(list, self, i)


_STD = {'b': (1, True), 'B': (1, False), 'h': (2, True), 'H': (2, False),
        'i': (4, True), 'I': (4, False), 'l': (4, True), 'L': (4, False),
        'q': (8, True), 'Q': (8, False)}


class StructShim:
    error = _struct.error
    calcsize = staticmethod(_struct.calcsize)
    unpack = staticmethod(_struct.unpack)

    @staticmethod
    def pack(fmt, *vals):
        if not any(isinstance(v, (SymInt, SymBool)) for v in vals):
            return _struct.pack(fmt, *vals)
        m = re.fullmatch(r'([<>=!@]?)([bBhHiIlLqQ]+)', fmt)
        if m is None or len(m.group(2)) != len(vals) or (m.group(1) in ('', '@') and len(vals) != 1):
            _path().flag('struct.pack format %r with symbolic value' % (fmt,))
            raise EngineLimit('struct.pack format %r' % (fmt,))
        endian = '<' if m.group(1) in '<' else '>'
        native = m.group(1) in ('', '@')
        if m.group(1) in ('=', '', '@'):
            endian = '<' if sys.byteorder == 'little' else '>'
        segs = []
        for ch, v in zip(m.group(2), vals):
            n, signed = _STD[ch]
            if native:
                n = _struct.calcsize(ch)        # native size of this platform (l/L are 8 bytes on LP64)
            if isinstance(v, SymBool):
                v = v.as_int()
            if not isinstance(v, SymInt):
                segs.append(Seg('lit', data=_struct.pack((m.group(1) or '@') + ch, v)))
                continue
            lo, hi = (-(1 << (8 * n - 1)), (1 << (8 * n - 1)) - 1) if signed else (0, (1 << (8 * n)) - 1)
            if not (v >= lo and v <= hi):
                raise _struct.error('argument out of range')
            segs.append(Seg('int', n=n, endian=endian, value=v, signed=signed))
        return SymBytes(segs)


def _bytearray(*a):
    if len(a) == 1 and isinstance(a[0], (list, tuple)) and any(isinstance(v, (SymInt, SymBool)) for v in a[0]):
        return SymByteArray(_byte_list(a[0]))
    return SymByteArray(*a)


def _byte_list(seq):
    """bytes([...]) / bytearray([...]) of integers some of which are symbolic"""
    segs = []
    for v in seq:
        if isinstance(v, SymBool):
            v = v.as_int()
        if isinstance(v, SymInt):
            if not (v >= 0 and v <= 255):
                raise ValueError('bytes must be in range(0, 256)')
            segs.append(Seg('int', n=1, endian='<', value=v, signed=False))
        else:
            segs.append(Seg('lit', data=builtins.bytes([v])))
    return SymBytes(segs)


def _bytes(*a, **kw):
    if len(a) == 1 and isinstance(a[0], (SymBytes, SymByteArray)):
        return SymBytes.of(a[0])
    if len(a) == 1 and isinstance(a[0], (list, tuple)) and any(isinstance(v, (SymInt, SymBool)) for v in a[0]):
        return _byte_list(a[0])
    return builtins.bytes(*a, **kw)


def _to_bytes(self, length=1, byteorder='big', *, signed=False):
    lo, hi = (-(1 << (8 * length - 1)), (1 << (8 * length - 1)) - 1) if signed else (0, (1 << (8 * length)) - 1)
    if not (self >= lo and self <= hi):
        raise OverflowError('int too big to convert')
    return SymBytes([Seg('int', n=length, endian='<' if byteorder == 'little' else '>', value=self, signed=signed)])


SymInt.to_bytes = _to_bytes
SymInt.bit_length = lambda self: (_ for _ in ()).throw(EngineLimit('bit_length of a symbolic integer'))


MARK = re.compile(r'@([A-Za-z_][A-Za-z_0-9]*)@')


class Markers:
    """'@NAME@' tokens stand for 'some spelling of the integer NAME'"""
    table = {}
    keep = []


def _str_marker(v):
    name = 's%d' % id(v)
    Markers.table[name] = v
    Markers.keep.append(v)
    return '@%s@' % name


core.STR_HOOK[0] = _str_marker


class Formatted:
    """registry of formatted symbolic integers: token -> (value, format spec)"""
    table = {}


def _fmt_marker(v, spec):
    tok = '\u27e6%d:%s\u27e7' % (id(v), spec)
    Formatted.table[tok] = (v, spec)
    Markers.keep.append(v)
    return tok


core.FMT_HOOK[0] = _fmt_marker


def _int(*a, **kw):
    if a and isinstance(a[0], str):
        m = MARK.fullmatch(a[0].strip())
        if m and m.group(1) in Markers.table:
            return Markers.table[m.group(1)]
    if a and isinstance(a[0], core.SymFrac) and len(a) == 1 and not kw:
        # int(x / 2^k): the float quotient is exact below 2^53, int() truncates toward zero
        fr = a[0]
        n, d = fr.num, fr.den
        if d & (d - 1) == 0 and isinstance(n, SymInt) and -(1 << 53) < n.lo and n.hi < (1 << 53):
            w = n.e.size() + 1
            q = core._sx(n.e, w) / z3.BitVecVal(d, w)          # bvsdiv truncates toward zero
            lo, hi = sorted((int(n.lo / d), int(n.hi / d)))
            return SymInt(q, min(lo, 0) if n.lo < 0 else lo, max(hi, 0) if n.hi > 0 else hi)
        _path().flag('int() of a symbolic quotient that is not exact')
        raise EngineLimit('int() of a symbolic quotient')
    if a and isinstance(a[0], SymInt):
        if len(a) == 1 and not kw:
            return a[0]
        raise TypeError("int() can't convert non-string with explicit base")
    return builtins.int(*a, **kw)


def _int_to_bytes(x, *a, **k):
    return x.to_bytes(*a, **k)


def _int_from_bytes(data, byteorder='big', *, signed=False):
    if isinstance(data, (SymBytes, SymByteArray)):
        raise EngineLimit('int.from_bytes of symbolic bytes')
    return builtins.int.from_bytes(data, byteorder, signed=signed)


_int.to_bytes = _int_to_bytes
_int.from_bytes = _int_from_bytes


def _eval(expr, g=None, l=None):
    """an @NAME@ token standing alone is 'some spelling of the integer NAME'"""
    if isinstance(expr, str):
        m = MARK.fullmatch(expr.strip())
        if m and m.group(1) in Markers.table:
            return Markers.table[m.group(1)]
    return builtins.eval(expr, g, l)


def _isinstance(o, t):
    """the module's name ``int`` is bound to the _int stub; a symbolic integer is an int"""
    ts = t if builtins.isinstance(t, tuple) else (t,)
    ts = tuple(builtins.int if x is _int else x for x in ts)
    if builtins.isinstance(o, SymInt) and builtins.int in ts:
        return True
    if builtins.isinstance(o, SymBool) and (builtins.bool in ts or builtins.int in ts):
        return True
    return builtins.isinstance(o, ts)


class _NullLog:
    def info(self, *a, **k):
        pass
    debug = warning = error = info

    def addHandler(self, *a):
        pass


def _noop(*a, **k):
    return None


def _log_conversion(pass_name, item_a, item_b):
    """the real helper formats both items even when logging is off: keep that effect (an item whose __str__
    raises makes the real assembler crash) for everything but byte blobs, whose text is one token per byte"""
    for it in (item_a, item_b):
        if builtins.type(it).__name__ != 'Blob':
            '{}'.format(it)


def _log_constant(pass_name, item, value):
    '{} {}'.format(item, item.name)


def _no_struct_class(*a, **k):
    raise EngineLimit('struct.Struct objects are not modelled')


def install(mod, vfs=None):
    """assign the stubs into module ``mod`` (a fresh copy of asm.py)"""
    mod.c_uint32 = _c_uint32
    mod.c_int32 = _c_int32
    mod.type = _type
    mod.REGISTERS = SymRegs(mod.REGISTERS)
    mod.struct = StructShim
    mod.bytearray = _bytearray
    mod.bytes = _bytes
    mod.len = sym_len
    mod.int = _int
    mod.eval = _eval
    mod.isinstance = _isinstance
    mod.log_conversion = _log_conversion
    mod.log_constant = _log_constant

    mod.log = _NullLog()
    # names imported from the stubbed modules directly (from struct import pack, from ctypes import ...)
    for name, val in list(vars(mod).items()):
        if val is _struct.pack:
            setattr(mod, name, StructShim.pack)
        elif val is _struct.unpack:
            setattr(mod, name, StructShim.unpack)
        elif val is _struct.Struct:
            setattr(mod, name, _no_struct_class)
        elif builtins.type(val) is types.FunctionType and val.__defaults__ and any(builtins.type(d) is builtins.bytearray for d in val.__defaults__):
            # a byte buffer kept in a default argument lives as long as the module: it must be able to hold symbolic chunks
            val.__defaults__ = tuple(_bytearray(bytes(d)) if builtins.type(d) is builtins.bytearray else d for d in val.__defaults__)
        elif builtins.type(val) in (tuple, list) and len(val) >= 2 and all(builtins.type(e) is builtins.int for e in val):
            # module-level tables of integers may be indexed with a symbolic operand
            setattr(mod, name, (SymTuple if builtins.type(val) is tuple else SymList)(val))
    if vfs is not None:
        vfs.install(mod)
    return mod


def load_asm_shimmed(vfs=None):
    return install(load_module('bronzebeard/asm.py', 'sym'), vfs)

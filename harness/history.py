"""Two-call histories over a changing file system (C14 / C15 / C16).

assemble() is called twice in one process (one copy of the module) with the file system edited in
between: another -i directory, an included file edited, removed, shadowed, a second project with the
same source text but other files.  The second call must behave exactly like the same call made in a
fresh process on the same file-system state: same bytes / labels / constants, or the same assembler
error (class, file, line).  The operand K0 is symbolic, so the comparison is a solver query over all
its values; the scenario (which files, which edit) is concrete - a stated bound.

Caches that survive a call (module-level dictionaries, default arguments, attributes left on shared
objects) are invisible to a single call and to the test-suite; this is the only harness that would
see them, and it sees them through the real code, not through a model of it."""
import posixpath

import z3

from symx import core, asmshim, vfs as vfsmod
from symx.core import SymInt, SymBool, And, Or, Not
from symx.symbytes import SymBytes, concretize
from symx.asmshim import Markers
from . import common
from .common import TaskResult
from .comp import bool_z3
from .equiv import seg_equal

# scenario: files (state before call 1), call1, edits, call2
#   a call: dict(main=path or text, idirs=[...], cwd=dir)
#   an edit: ('write', path, text|bytes) | ('remove', path)
MAIN = ['top:', 'addi x1, x0, K0', 'include common.asm', 'j top', 'dw board_base']
SCENARIOS = {
    'idir_switch': dict(
        files={'/proj/src/main.asm': MAIN,
               '/proj/src/common.asm': ['common:', 'include board.asm  # found through -i only', 'dw common'],
               '/proj/boardA/board.asm': ['LED = 5', 'board_base:', 'addi x2, x0, LED'],
               '/proj/boardB/board.asm': ['LED = 9', 'db 1', 'align 4', 'board_base:', 'addi x2, x0, LED', 'dw 0x200']},
        call1=dict(main='/proj/src/main.asm', idirs=['/proj/boardA'], cwd='/proj/run'),
        edits=[],
        call2=dict(main='/proj/src/main.asm', idirs=['/proj/boardB'], cwd='/proj/run')),
    'nested_edit': dict(
        files={'/proj/src/main.asm': MAIN,
               '/proj/src/common.asm': ['common:', 'include board.asm', 'dw common'],
               '/proj/src/board.asm': ['board_base:', 'addi x2, x0, 5']},
        call1=dict(main='/proj/src/main.asm', idirs=[], cwd='/proj/run'),
        edits=[('write', '/proj/src/board.asm', ['db 7', 'align 2', 'board_base:', 'addi x2, x0, 6', 'addi x3, x0, K0'])],
        call2=dict(main='/proj/src/main.asm', idirs=[], cwd='/proj/run')),
    'shadow_appears': dict(
        files={'/proj/src/main.asm': MAIN,
               '/proj/src/common.asm': ['common:', 'include board.asm', 'dw common'],
               '/proj/inc/board.asm': ['board_base:', 'addi x2, x0, 5']},
        call1=dict(main='/proj/src/main.asm', idirs=['/proj/inc'], cwd='/proj/run'),
        edits=[('write', '/proj/src/board.asm', ['dw 1', 'board_base:', 'addi x2, x0, 6'])],
        call2=dict(main='/proj/src/main.asm', idirs=['/proj/inc'], cwd='/proj/run')),
    'include_removed': dict(
        files={'/proj/src/main.asm': MAIN,
               '/proj/src/common.asm': ['common:', 'board_base:', 'dw common']},
        call1=dict(main='/proj/src/main.asm', idirs=[], cwd='/proj/run'),
        edits=[('remove', '/proj/src/common.asm')],
        call2=dict(main='/proj/src/main.asm', idirs=[], cwd='/proj/run')),
    'nested_include_removed': dict(
        files={'/proj/src/main.asm': MAIN,
               '/proj/src/common.asm': ['common:', 'addi x4, x0, 1', 'include board.asm', 'dw common'],
               '/proj/src/board.asm': ['board_base:', 'addi x2, x0, 5']},
        call1=dict(main='/proj/src/main.asm', idirs=[], cwd='/proj/src'),
        edits=[('remove', '/proj/src/board.asm')],
        call2=dict(main='/proj/src/main.asm', idirs=[], cwd='/proj/src')),
    'include_bytes_removed': dict(
        files={'/proj/src/main.asm': ['top:', 'addi x1, x0, K0', 'include_bytes blob.bin', 'j top'],
               '/proj/src/blob.bin': b'\x11\x22\x33\x44'},
        call1=dict(main='/proj/src/main.asm', idirs=[], cwd='/proj/run'),
        edits=[('remove', '/proj/src/blob.bin')],
        call2=dict(main='/proj/src/main.asm', idirs=[], cwd='/proj/run')),
    'same_text_other_project': dict(
        files={'/projA/prog.asm': ['start:', 'addi x10, x0, K0', 'include_bytes blob.bin', 'j start'],
               '/projA/blob.bin': b'\x11\x22\x33\x44',
               '/projB/prog.asm': ['start:', 'addi x10, x0, K0', 'include_bytes blob.bin', 'j start'],
               '/projB/blob.bin': b'\xaa\xbb\xcc\xdd'},
        call1=dict(main='/projA/prog.asm', idirs=[], cwd='/projA'),
        edits=[],
        call2=dict(main='/projB/prog.asm', idirs=[], cwd='/projB')),
    'same_text_other_project_error': dict(
        files={'/projA/prog.asm': ['start:', 'addi x10, x0, 1', 'addi x11, x0, K0 + 4096', 'j start'],
               '/projB/sub/prog.asm': ['addi x0, x0, 0', 'start:', 'addi x10, x0, 1', 'addi x11, x0, K0 + 4096', 'j start']},
        call1=dict(main='/projA/prog.asm', idirs=[], cwd='/projA', swallow=True),
        edits=[],
        call2=dict(main='/projB/sub/prog.asm', idirs=[], cwd='/projB')),
    'blob_rewritten': dict(
        files={'/proj/src/main.asm': ['top:', 'addi x1, x0, K0', 'include_bytes blob.bin', 'L:', 'dw L'],
               '/proj/src/blob.bin': b'\x11\x22\x33\x44'},
        call1=dict(main='/proj/src/main.asm', idirs=[], cwd='/proj/run'),
        edits=[('write', '/proj/src/blob.bin', b'\x55\x66\x77\x88\x99\xaa')],
        call2=dict(main='/proj/src/main.asm', idirs=[], cwd='/proj/run')),
    'source_text_then_path': dict(
        files={'/proj/src/main.asm': ['top:', 'addi x1, x0, K0', 'include part.asm', 'j top'],
               '/proj/src/part.asm': ['part:', 'dw part'],
               '/proj/run/part.asm': ['part:', 'db 1', 'align 4', 'dw part', 'dw top']},
        call1=dict(main='top:\naddi x1, x0, K0\ninclude part.asm\nj top', idirs=[], cwd='/proj/run'),
        edits=[],
        call2=dict(main='/proj/src/main.asm', idirs=[], cwd='/proj/run')),
}
SCENARIOS.update({
    # the first call fails while an included file is being read; then the cause is repaired
    'failed_nested_then_created': dict(
        files={'/proj/src/main.asm': ['top:', 'addi x1, x0, K0', 'include lib.asm', 'j top'],
               '/proj/src/lib.asm': ['VALUE = 42', 'lib_entry:', 'include dev.asm', 'addi x2, x0, VALUE']},
        call1=dict(main='/proj/src/main.asm', idirs=[], cwd='/proj/run'),
        edits=[('write', '/proj/src/dev.asm', ['dev:', 'dw dev'])],
        call2=dict(main='/proj/src/main.asm', idirs=[], cwd='/proj/run')),
    'failed_then_idir_added': dict(
        files={'/proj/src/main.asm': ['top:', 'addi x1, x0, K0', 'include lib.asm', 'j top'],
               '/proj/src/lib.asm': ['lib_entry:', 'include board.asm', 'dw lib_entry'],
               '/proj/boards/board.asm': ['board:', 'addi x3, x0, 7']},
        call1=dict(main='/proj/src/main.asm', idirs=[], cwd='/proj/run'),
        edits=[],
        call2=dict(main='/proj/src/main.asm', idirs=['/proj/boards'], cwd='/proj/run')),
    'failed_in_include_then_edited': dict(
        files={'/proj/src/main.asm': ['top:', 'include lib.asm', 'addi x1, x0, K0', 'j top'],
               '/proj/src/lib.asm': ['lib_entry:', 'addi x2, x0, 5000']},
        call1=dict(main='/proj/src/main.asm', idirs=[], cwd='/proj/run'),
        edits=[('write', '/proj/src/lib.asm', ['lib_entry:', 'addi x2, x0, 50'])],
        call2=dict(main='/proj/src/main.asm', idirs=[], cwd='/proj/run')),
    'failed_include_bytes_then_created': dict(
        files={'/proj/src/main.asm': ['top:', 'include lib.asm', 'addi x1, x0, K0'],
               '/proj/src/lib.asm': ['lib_entry:', 'include_bytes blob.bin', 'dw lib_entry']},
        call1=dict(main='/proj/src/main.asm', idirs=[], cwd='/proj/run'),
        edits=[('write', '/proj/src/blob.bin', b'\x01\x02\x03\x04')],
        call2=dict(main='/proj/src/main.asm', idirs=[], cwd='/proj/run')),
})
SCENARIOS.update({
    # no history: one call, compared with an equivalent call (ref) - a relative -i directory is relative to the
    # working directory, not to the including file
    'relative_idir_bytes': dict(
        files={'/proj/src/main.asm': ['top:', 'addi x1, x0, K0', 'include_bytes blob.bin', 'L:', 'dw L'],
               '/proj/run/assets/blob.bin': b'\x5a\x10\x11\x12',
               '/proj/src/assets/blob.bin': b'\x5a\xe0\xe1\xe2'},
        call1=None, edits=[],
        call2=dict(main='/proj/src/main.asm', idirs=['assets'], cwd='/proj/run'),
        ref=dict(main='/proj/src/main.asm', idirs=['/proj/run/assets'], cwd='/proj/run')),
    'relative_idir_bytes_only_cwd': dict(
        files={'/proj/src/main.asm': ['top:', 'addi x1, x0, K0', 'include_bytes blob.bin', 'L:', 'dw L'],
               '/proj/run/assets/blob.bin': b'\x5a\x10\x11\x12'},
        call1=None, edits=[],
        call2=dict(main='/proj/src/main.asm', idirs=['assets'], cwd='/proj/run'),
        ref=dict(main='/proj/src/main.asm', idirs=['/proj/run/assets'], cwd='/proj/run')),
    'relative_idir_include': dict(
        files={'/proj/src/main.asm': ['top:', 'addi x1, x0, K0', 'include part.asm', 'j top'],
               '/proj/run/lib/part.asm': ['part:', 'dw part'],
               '/proj/src/lib/part.asm': ['part:', 'db 1', 'align 4', 'dw part', 'dw top']},
        call1=None, edits=[],
        call2=dict(main='/proj/src/main.asm', idirs=['lib'], cwd='/proj/run'),
        ref=dict(main='/proj/src/main.asm', idirs=['/proj/run/lib'], cwd='/proj/run')),
    'dotdot_idir_include': dict(
        files={'/proj/src/main.asm': ['top:', 'addi x1, x0, K0', 'include part.asm', 'j top'],
               '/proj/lib/part.asm': ['part:', 'dw part']},
        call1=None, edits=[],
        call2=dict(main='/proj/src/main.asm', idirs=['../lib'], cwd='/proj/run'),
        ref=dict(main='/proj/src/main.asm', idirs=['/proj/lib'], cwd='/proj/run')),
})
SCENARIOS.update({
    # the including file itself lives in the first -i directory; the name it includes exists there and in a later -i directory
    'includer_in_first_idir': dict(
        files={'/proj/src/main.asm': ['top:', 'addi x1, x0, K0', 'include entry.asm', 'j top'],
               '/proj/lib1/entry.asm': ['entry:', 'include util.asm', 'dw entry'],
               '/proj/lib1/util.asm': ['UTIL_ID = 11', 'addi x5, x0, UTIL_ID', 'addi x6, x0, 1'],
               '/proj/lib2/util.asm': ['UTIL_ID = 22', 'addi x5, x0, UTIL_ID']},
        call1=None, edits=[],
        call2=dict(main='/proj/src/main.asm', idirs=['/proj/lib1', '/proj/lib2'], cwd='/proj/run'),
        ref=dict(main='/proj/src/main.asm', idirs=['/proj/lib1'], cwd='/proj/run')),
    'same_idir_twice': dict(
        files={'/proj/src/main.asm': ['top:', 'addi x1, x0, K0', 'include util.asm', 'j top'],
               '/proj/lib1/util.asm': ['UTIL_ID = 11', 'addi x5, x0, UTIL_ID', 'addi x6, x0, 1'],
               '/proj/lib2/util.asm': ['UTIL_ID = 22', 'addi x5, x0, UTIL_ID']},
        call1=None, edits=[],
        call2=dict(main='/proj/src/main.asm', idirs=['/proj/lib1', '/proj/lib2', '/proj/lib1'], cwd='/proj/run'),
        ref=dict(main='/proj/src/main.asm', idirs=['/proj/lib1'], cwd='/proj/run')),
    'idir_is_source_dir': dict(
        files={'/proj/src/main.asm': ['top:', 'addi x1, x0, K0', 'include util.asm', 'j top'],
               '/proj/src/util.asm': ['UTIL_ID = 11', 'addi x5, x0, UTIL_ID', 'addi x6, x0, 1'],
               '/proj/lib2/util.asm': ['UTIL_ID = 22', 'addi x5, x0, UTIL_ID']},
        call1=None, edits=[],
        call2=dict(main='/proj/src/main.asm', idirs=['/proj/src', '/proj/lib2'], cwd='/proj/run'),
        ref=dict(main='/proj/src/main.asm', idirs=[], cwd='/proj/run')),
})
SCENARIOS.update({
    # a file reached through -i includes bytes that sit next to it; a same-named file sits next to the top-level source
    'nested_include_bytes_behind_idir': dict(
        files={'/proj/src/main.asm': ['top:', 'dd K0', 'include drivers/dev.asm', 'j top'],
               '/proj/src/main2.asm': ['top:', 'dd K0', 'include ../vendor/drivers/dev.asm', 'j top'],
               '/proj/vendor/drivers/dev.asm': ['dev:', 'include_bytes blob.bin', 'dw dev'],
               '/proj/vendor/drivers/blob.bin': b'inner4\x12\x11',
               '/proj/src/blob.bin': b'OUTER!\x12\x11'},
        call1=None, edits=[],
        call2=dict(main='/proj/src/main.asm', idirs=['/proj/vendor'], cwd='/proj/run'),
        ref=dict(main='/proj/src/main2.asm', idirs=[], cwd='/proj/run')),
})
BY_PROP = {
    'C10': ['nested_include_bytes_behind_idir', 'relative_idir_bytes', 'relative_idir_bytes_only_cwd', 'blob_rewritten', 'include_bytes_removed'],
    'C14': ['nested_include_bytes_behind_idir', 'includer_in_first_idir', 'same_idir_twice', 'idir_is_source_dir', 'relative_idir_include', 'dotdot_idir_include', 'idir_switch', 'nested_edit', 'shadow_appears', 'source_text_then_path', 'failed_nested_then_created', 'failed_then_idir_added'],
    'C15': ['include_removed', 'nested_include_removed', 'include_bytes_removed', 'same_text_other_project_error'],
    'C16': list(SCENARIOS),
}


def _text(content):
    return '\n'.join(content) if isinstance(content, list) else content


def _dirs_of(files):
    ds = set()
    for pth in files:
        d = posixpath.dirname(pth)
        while d and d != '/':
            ds.add(d)
            d = posixpath.dirname(d)
    return ds


def history_task(prop, sname, kbits):
    sc = SCENARIOS[sname]
    tag = 'history:%s:%s' % (prop, sname)
    res = TaskResult(tag)
    prof = common.FuncProfile()
    x = core.Explorer(timeout_ms=60000, max_paths=300)
    n = 0

    def make_vfs(state, cwd):
        v = vfsmod.VFS(cwd)
        for d in _dirs_of(state) | {cwd, '/proj/run'}:
            v.add_dir(d)
        for call in (sc['call1'], sc['call2'], sc.get('ref')):
            for d in (call or {}).get('idirs', []):
                v.add_dir(posixpath.normpath(posixpath.join((call or {}).get('cwd', '/'), d)))
        for pth, content in state.items():
            if isinstance(content, bytes):
                v.add_bytes(pth, content)
            else:
                v.add_text(pth, _text(content))
        return v

    def apply_edits(v, state):
        for e in sc['edits']:
            if e[0] == 'write':
                state[e[1]] = e[2]
                if isinstance(e[2], bytes):
                    v.add_bytes(e[1], e[2])
                else:
                    v.add_text(e[1], _text(e[2]))
            else:
                state.pop(e[1], None)
                v.files.pop(e[1], None)

    def call(asm, c, K, compress):
        labels, consts = {}, {'K0': K}
        try:
            out = asm.assemble(c['main'], constants=consts, labels=labels, include_dirs=list(c['idirs']), compress=compress)
            return ('ok', out, labels, consts)
        except core.EngineLimit:
            raise
        except Exception as e:          # noqa: outcome of the real code
            line = getattr(e, 'line', None)
            return ('exc', type(e).__name__, getattr(line, 'file', None), getattr(line, 'number', None), str(getattr(e, 'message', e))[:120])

    def fn(p):
        K = p.int('K0', kbits)
        compress = bool(p.bool('compress'))
        Markers.table = {}
        state = dict(sc['files'])
        # one copy of the module lives through both calls (loaded per path: nothing leaks between paths)
        asm = asmshim.load_asm_shimmed()
        v = make_vfs(state, (sc['call1'] or sc['call2'])['cwd'])
        v.install(asm)
        with prof:
            first = call(asm, sc['call1'], K, compress) if sc['call1'] else None
            apply_edits(v, state)
            v.cwd = sc['call2']['cwd']
            hist = call(asm, sc['call2'], K, compress)
        fresh_mod = asmshim.load_asm_shimmed()
        refc = sc.get('ref') or sc['call2']
        v2 = make_vfs(state, refc['cwd'])
        v2.install(fresh_mod)
        with prof:
            fresh = call(fresh_mod, refc, K, compress)
        p.notes.update(K=K, compress=compress, first=first)
        return hist, fresh

    def same(a, b):
        """z3 Bool: the two outcomes are the same"""
        if a[0] != b[0]:
            return z3.BoolVal(False)
        if a[0] == 'exc':
            return z3.BoolVal(a[1:4] == b[1:4])
        (_, oa, la, ca), (_, ob, lb, cb) = a, b
        if list(la) != list(lb) or set(ca) != set(cb):
            return z3.BoolVal(False)
        conds = [seg_equal(SymBytes.of(oa).segs, SymBytes.of(ob).segs)]
        conds += [bool_z3(la[k] == lb[k]) for k in la]
        conds += [bool_z3(ca[k] == cb[k]) for k in ca]
        return z3.And(*conds)

    for p, kind, val in x.run(fn):
        if kind == 'limit':
            res.inconc('%s: engine limit: %s' % (tag, val))
            continue
        if kind == 'exc':
            res.inconc('%s: harness error %r' % (tag, val))
            continue
        hist, fresh = val
        model = p.witness()
        kv, cv = core.concrete(p.notes['K'], model), p.notes['compress']
        rh, rf = real_history(sc, kv, cv)
        symh = _conc(hist, model)
        symf = _conc(fresh, model)
        if symh != rh or symf != rf:
            res.inconc('%s: witness replay mismatch K0=%d: symbolic %r / %r, real %r / %r' % (tag, kv, symh[:2], symf[:2], rh[:2], rf[:2]))
            continue
        res['validated'] += 1
        n += 1
        if len(res['samples']) < 2:
            res['samples'].append(dict(scenario=sname, K0=kv, compress=cv, second_call=[rh[0], rh[1].hex() if rh[0] == 'ok' else list(rh[1:4])]))
        bad = None
        if prop == 'C15' and hist[0] == 'exc' and hist[1] != 'AssemblerError' and fresh[0] == 'exc' and fresh[1] == 'AssemblerError':
            bad = model
        else:
            r, mdl = p.sat(z3.Not(same(hist, fresh)))
            if r == 'sat':
                bad = mdl
            elif r != 'unsat':
                res.oblig(None, 'unknown %s' % tag)
                continue
        if bad is None:
            res.oblig(True)
            continue
        kv = core.concrete(p.notes['K'], bad)
        rh, rf = real_history(sc, kv, cv)
        if rh == rf:
            res.inconc('%s: counterexample K0=%d did not reproduce on the real code' % (tag, kv))
            continue
        what = 'second call after the history gives %s, the same call in a fresh process gives %s' % (_show(rh), _show(rf))
        path = common.write_replay(prop, tag, dict(kind='history', property=prop, scenario=sname, K0=kv, compress=cv, what=what))
        res['violations'].append(dict(harness='history', scenario=sname, kind='second-call-differs-from-fresh', inputs=dict(K0=kv, compress=cv), what=what, replay=path))
        res.oblig(False)
    if n == 0:
        res['vacuity'].append('%s: no path' % tag)
    res.absorb_stats(x.stats)
    res['functions'] = prof.names()
    return res


def _show(r):
    return '%s %s' % (r[0], r[1].hex() + ' ' + repr(r[2]) if r[0] == 'ok' else repr(r[1:4]))


def _conc(o, model):
    if o[0] == 'exc':
        return ('exc', o[1], o[2], o[3])
    return ('ok', concretize(o[1], model), {k: core.concrete(v, model) for k, v in o[2].items()})


def real_history(sc, kv, compress):
    """(second call after the history, second call in a fresh module) on the pristine code in a real tree"""
    import os
    import shutil
    import tempfile
    out = []
    for with_history in (True, False):
        root = tempfile.mkdtemp(prefix='bbverif_')
        old = os.getcwd()
        try:
            real = asmshim.load_asm_pristine()
            state = dict(sc['files'])

            def put(pth, content):
                q = root + pth
                os.makedirs(os.path.dirname(q), exist_ok=True)
                with open(q, 'wb' if isinstance(content, bytes) else 'w') as f:
                    f.write(content if isinstance(content, bytes) else _text(content))
            for pth, content in state.items():
                put(pth, content)
            for c in (sc['call1'], sc['call2'], sc.get('ref')):
                if c:
                    for d in c['idirs'] + [c['cwd']]:
                        os.makedirs(root + posixpath.normpath(posixpath.join(c['cwd'], d)), exist_ok=True)

            def call(c):
                os.chdir(root + c['cwd'])
                labels, consts = {}, {'K0': kv}
                main = c['main'] if '\n' in c['main'] else root + c['main']
                try:
                    o = real.assemble(main, constants=consts, labels=labels, include_dirs=[(root + d if d.startswith('/') else d) for d in c['idirs']], compress=compress)
                    return ('ok', bytes(o), labels)
                except Exception as e:      # noqa
                    line = getattr(e, 'line', None)
                    lf = getattr(line, 'file', None)
                    if isinstance(lf, str) and lf.startswith(root):
                        lf = lf[len(root):]
                    return ('exc', type(e).__name__, lf, getattr(line, 'number', None))
            if with_history and sc['call1']:
                call(sc['call1'])
            for e in sc['edits']:
                if e[0] == 'write':
                    put(e[1], e[2])
                    # a rewritten file gets a later time stamp, as it would after an edit
                    st = os.stat(root + e[1])
                    os.utime(root + e[1], ns=(st.st_atime_ns, st.st_mtime_ns + 2_000_000_000))
                else:
                    os.remove(root + e[1])
            out.append(call(sc['call2'] if with_history else (sc.get('ref') or sc['call2'])))
        finally:
            os.chdir(old)
            shutil.rmtree(root, ignore_errors=True)
    return out[0], out[1]

"""Layout templates: small programs with symbolic gaps (include_bytes of a file whose size
is a solver variable), symbolic li values and label-dependent operands, run through the whole
real assemble() in both modes.  Serves C03, C08, C09 and the program-level parts of
C04, C12, C20."""
import re
import struct as _struct

import z3

from symx import core
from symx.core import SymInt, SymBool, And, Or, Not
from symx.symbytes import SymBytes
from spec import sem, isa
from . import common
from .common import TaskResult
from .pipe import Pipeline, sym_outcome_concrete, outcomes_agree
from .comp import pc_formula, bool_z3

BV = z3.BitVecVal
BRANCHES = {'beq', 'bne', 'blt', 'bge', 'bltu', 'bgeu', 'beqz', 'bnez', 'blez', 'bgez', 'bltz', 'bgtz',
            'bgt', 'ble', 'bgtu', 'bleu'}
SEQ_SIZE = {'bytes': 1, 'shorts': 2, 'ints': 4, 'longs': 4, 'longlongs': 8}
SH_SIZE = {'db': 1, 'dh': 2, 'dw': 4, 'dd': 8}
# label names of the templates: L<n>, and a2 / s2 (labels spelled like registers; never used as registers in a template)
LABEL_RE = re.compile(r'\b(L\d+|a2|s2)\b')


def classify(src):
    """what an independent reader of the documentation expects of this source line"""
    toks = src.replace('(', ' ( ').replace(')', ' ) ').replace(',', ' ').split()
    head = toks[0].lower()
    m = dict(src=src, head=head, kind='insn', labels=LABEL_RE.findall(src))
    if len(toks) == 1 and toks[0].endswith(':'):
        return dict(m, kind='label', name=toks[0][:-1])
    if len(toks) >= 3 and toks[1] == '=':
        return dict(m, kind='const')
    if head == 'include_bytes':
        return dict(m, kind='gap', marker=toks[1].split('.')[0])
    if head == 'align':
        return dict(m, kind='align', n=int(toks[1], 0) if not toks[1].startswith('@') else toks[1].strip('@'))
    if head == 'string':
        import codecs
        text = src.split(' ', 1)[1] if ' ' in src else ''
        text = codecs.decode(text.encode('latin-1', 'backslashreplace'), 'unicode_escape')   # backslash escapes, then UTF-8
        return dict(m, kind='data', size=len(text.encode('utf-8')), labels=[])
    if head in SEQ_SIZE:
        return dict(m, kind='data', size=SEQ_SIZE[head] * (len(toks) - 1))
    if head in SH_SIZE:
        return dict(m, kind='data', size=SH_SIZE[head], value=' '.join(toks[1:]))
    if head == 'pack':
        return dict(m, kind='data', size=_struct.calcsize(toks[1]), value=' '.join(toks[2:]))
    if head in ('li', 'call', 'tail'):
        m['kind'] = 'pseudo2'
    if head in BRANCHES and m['labels']:
        m['transfer'] = ('branch', m['labels'][0])
    elif head in ('j', 'jal') and m['labels']:
        m['transfer'] = ('jal', m['labels'][0])
    elif head in ('call', 'tail') and m['labels']:
        m['transfer'] = ('exec', m['labels'][0])
    return m


def value_expr(text):
    """('label', L) | ('offset', L) | ('position', L, base-name) | ('hi', e) | ('lo', e) | None"""
    t = text.replace('(', ' ').replace(')', ' ').replace(',', ' ').split()
    if not t:
        return None
    if t[0] == '%offset':
        return ('offset', t[1])
    if t[0] == '%position':
        return ('position', t[1], t[2])
    if t[0] == '%hi':
        return ('hi', value_expr(' '.join(t[1:])))
    if t[0] == '%lo':
        return ('lo', value_expr(' '.join(t[1:])))
    if len(t) == 1 and LABEL_RE.fullmatch(t[0]):
        return ('label', t[0])
    if len(t) == 1 and re.fullmatch(r'[A-Z][A-Z0-9]*', t[0]):
        return ('const', t[0])
    return None


class Walk:
    """oracle 4.6 over the blob list handed to the real resolve_blobs"""

    def __init__(self, lines, blobs):
        self.lines = lines
        self.blobs = blobs
        self.per_line = {}
        off = 0
        self.order_ok = True
        last = 0
        for b in blobs:
            n = b.line.number
            if n < last:
                self.order_ok = False
            last = n
            data = SymBytes.of(b.data)
            self.per_line.setdefault(n, dict(off=off, segs=[], length=0))
            e = self.per_line[n]
            e['segs'] += data.segs
            e['length'] = e['length'] + data.length()
            off = off + data.length()
        self.total = off

    def offset_of_line(self, lineno):
        off = 0
        for b in self.blobs:
            if b.line.number < lineno:
                off = off + SymBytes.of(b.data).length()
        return off

    def label_offset(self, name):
        for i, l in enumerate(self.lines, 1):
            if l['kind'] == 'label' and l['name'] == name:
                return self.offset_of_line(i)
        raise KeyError(name)

    def insns(self, lineno):
        out = []
        for s in self.per_line.get(lineno, dict(segs=[]))['segs']:
            if s.kind == 'int' and s.endian == '<' and s.n in (2, 4):
                out.append((s.n, s.value))
            elif s.kind == 'lit' and len(s.data) in (2, 4):
                out.append((len(s.data), int.from_bytes(s.data, 'little')))
            else:
                out.append((None, s))
        return out


def bv32(v):
    return v.bv(32) if isinstance(v, SymInt) else BV(v % (1 << 32), 32)


def eval_value(ve, walk, lineno, consts):
    if ve[0] == 'label':
        return walk.label_offset(ve[1])
    if ve[0] == 'offset':
        return walk.label_offset(ve[1]) - walk.offset_of_line(lineno)
    if ve[0] == 'position':
        return consts[ve[2]] + walk.label_offset(ve[1])
    if ve[0] == 'const':
        return consts[ve[1]]
    if ve[0] in ('hi', 'lo'):
        # %hi / %lo of a value, written from their definition (C07): lo = the low 12 bits read
        # as signed, hi = the remaining upper part read as a signed 20-bit number
        v = eval_value(ve[1], walk, lineno, consts)
        lo = ((v + 2048) % 4096) - 2048
        if ve[0] == 'lo':
            return lo
        return ((((v - lo) >> 12) + (1 << 19)) % (1 << 20)) - (1 << 19)
    raise ValueError(ve)


class Template:
    def __init__(self, name, srclines):
        self.name = name
        self.src = list(srclines)
        self.lines = [classify(s) for s in self.src]
        # a name ending in !crlf: the program is passed as text with Windows line ends
        self.text = '\r\n'.join(self.src) + '\r\n' if name.endswith('!crlf') else '\n'.join(self.src)
        self.gaps = sorted({l['marker'] for l in self.lines if l['kind'] == 'gap'})
        self.consts = sorted(set(re.findall(r'\b(K\d+|BASE|WIDE)\b', self.text)) - set(re.findall(r'^(K\d+) =', self.text, re.M)))
        self.files = {'/w/%s.bin' % g: ('gap', g) for g in self.gaps}


def declare_inputs(p, t, gap_bits, k_bits):
    consts, markers = {}, {}
    syms = sorted(set(re.findall(r'@(N\d+)@', t.text)))
    for n in syms:
        markers[n] = p.int(n, lo=1, hi=16)        # symbolic alignment
    if syms:
        gap_bits = min(gap_bits, 8)
    for c in t.consts:
        consts[c] = p.int(c, lo=0, hi=(1 << 32) - 1) if c == 'BASE' else (p.int(c, 48) if c == 'WIDE' else p.int(c, k_bits))
    for g in t.gaps:
        markers[g] = p.int(g, lo=0, hi=(1 << gap_bits))
    return consts, markers


def explore(pl, t, compress, gap_bits, k_bits, prof, res, max_paths):
    x = core.Explorer(timeout_ms=120000, max_paths=max_paths)
    x.allow_symmod = '@N' in t.text
    out = []

    def fn(p):
        consts, markers = declare_inputs(p, t, gap_bits, k_bits)
        p.notes.update(constants=consts, markers=markers)
        with prof:
            return pl.assemble(t.text, consts, compress, markers)

    for p, kind, val in x.run(fn):
        if kind == 'limit':
            res.inconc('%s compress=%s: engine limit: %s' % (t.name, compress, val))
            continue
        model = p.witness()
        real = pl.real_assemble(t.text, p.notes['constants'], compress, p.notes['markers'], model)
        symc = sym_outcome_concrete(kind, val, model, lambda f, o, n: b'\x00' * n)
        if not outcomes_agree(symc, real):
            res.inconc('%s compress=%s: witness replay mismatch: symbolic %r real %r' % (
                t.name, compress, symc[:1] + ((symc[2],) if symc[0] == 'ok' else symc[1:]), real[:1] + real[2:3]))
            continue
        res['validated'] += 1
        out.append((p, kind, val, model))
        yield p, kind, val, model
    res.absorb_stats(x.stats)
    if x.truncated:
        if t.name.startswith(('rand_', 'enum_')):
            # a generated program may have more paths than the budget: what was explored counts,
            # the rest of that program is outside the claim (recorded in the evidence notes)
            res['notes'].append('%s compress=%s: only the first %d paths explored' % (t.name, compress, max_paths))
        else:
            res.inconc('%s compress=%s: path budget %d exhausted' % (t.name, compress, max_paths))


def inputs_of(p, model):
    return {k: core.concrete(v, model) for k, v in {**p.notes['constants'], **p.notes['markers']}.items()}


# ---------------------------------------------------------------------------
# per-path obligations
# ---------------------------------------------------------------------------
def obligations(prop, t, p, val, compress):
    """[(name, z3 Bool that must hold on this path)]"""
    out, labels, consts, blobs = val
    walk = Walk(t.lines, blobs)
    obs = []
    c = p.notes['constants']
    regs0 = z3.Array('regs0', z3.BitVecSort(5), z3.BitVecSort(32))
    if prop == 'C03':
        for i, l in enumerate(t.lines, 1):
            if l['kind'] == 'label':
                obs.append(('label table %s' % l['name'],
                            bool_z3(labels.get(l['name'], -1) == walk.offset_of_line(i))))
            tr = l.get('transfer')
            if not tr:
                continue
            T = bv32(walk.label_offset(tr[1]))
            ins = walk.insns(i)
            pc0 = bv32(walk.offset_of_line(i))
            if not ins or any(n is None for n, _ in ins):
                obs.append(('line %d emits instruction words' % i, z3.BoolVal(False)))
                continue
            if tr[0] in ('branch', 'jal'):
                n, v = ins[0]
                e = sem.step(sem.word_of(v, n), regs0, pc0, n)
                ok = z3.And(e.is_br, e.br_target == T) if tr[0] == 'branch' else z3.And(e.is_jal, e.jal_target == T)
                if n == 2:
                    ok = z3.And(ok, sem.legal_c(v.bv(16) if isinstance(v, SymInt) else BV(v, 16)))
                obs.append(('line %d %s lands on %s' % (i, l['head'], tr[1]), z3.And(z3.BoolVal(len(ins) == 1), ok)))
            else:
                regs, pc = regs0, pc0
                for n, v in ins:
                    e = sem.step(sem.word_of(v, n), regs, pc, n)
                    regs, pc = sem.execute(e, regs, pc, n)
                # a transfer that itself sits at an odd address (code behind odd-sized data) can never be
                # fetched, and jalr clears bit 0 of the odd target: nothing is demanded of it.  From an even
                # address an odd target is refused by both forms (odd jal / jalr immediates), so nothing is lost
                obs.append(('line %d %s lands on %s' % (i, l['head'], tr[1]), z3.Or(z3.Extract(0, 0, pc0) == 1, pc == T)))
    elif prop == 'C08':
        for i, l in enumerate(t.lines, 1):
            if l['kind'] == 'data' and l.get('value'):
                ve = value_expr(l['value'])
                if ve is None or ve[0] == 'const':
                    continue
                want = eval_value(ve, walk, i, c)
                segs = walk.per_line.get(i, dict(segs=[]))['segs']
                if len(segs) == 1 and segs[0].kind == 'int':
                    obs.append(('line %d data == %s' % (i, l['value']),
                                z3.Extract(8 * segs[0].n - 1, 0, core._sx(_bvx(segs[0].value), 72)) ==
                                z3.Extract(8 * segs[0].n - 1, 0, core._sx(_bvx(want), 72))))
                elif len(segs) == 1 and segs[0].kind == 'lit' and len(segs[0].data) == l['size']:
                    fmt = l['src'].split()[1] if l['head'] == 'pack' else '<'
                    got = int.from_bytes(segs[0].data, 'big' if fmt[0] == '>' else 'little')
                    n = l['size']
                    obs.append(('line %d data == %s' % (i, l['value']),
                                BV(got, 8 * n) == z3.Extract(8 * n - 1, 0, core._sx(_bvx(want), 72))))
                else:
                    obs.append(('line %d data shape' % i, z3.BoolVal(False)))
            elif l['kind'] in ('insn', 'pseudo2') and l['labels'] and not l.get('transfer'):
                toks = l['src'].replace(',', ' ').split(None, 2)
                head = l['head']
                ins = walk.insns(i)
                if not ins or any(n is None for n, _ in ins):
                    obs.append(('line %d emits instruction words' % i, z3.BoolVal(False)))
                    continue
                pc0 = bv32(walk.offset_of_line(i))
                if head == 'li':
                    rd = toks[1]
                    ve = value_expr(toks[2])
                    want = bv32(eval_value(ve, walk, i, c))
                    regs, pc = regs0, pc0
                    for n, v in ins:
                        e = sem.step(sem.word_of(v, n), regs, pc, n)
                        regs, pc = sem.execute(e, regs, pc, n)
                    rdn = _regnum(rd)
                    obs.append(('line %d li leaves %s' % (i, toks[2]), sem.rd_(regs, BV(rdn, 5)) == want))
                else:
                    # <op> rd, rs1, <expr>   or   lui rd, <expr>
                    parts = l['src'].replace(',', ' ').split()
                    if head in ('lui', 'auipc'):
                        ve = value_expr(' '.join(parts[2:]))
                    else:
                        ve = value_expr(' '.join(parts[3:]))
                    n, v = ins[0]
                    w = sem.word_of(v, n)
                    if ve[0] in ('hi', 'lo'):
                        full = bv32(eval_value(ve[1], walk, i, c))
                        if ve[0] == 'hi':
                            want = z3.Extract(31, 12, full + BV(0x800, 32))
                            got = z3.Extract(31, 12, w)
                            obs.append(('line %d %%hi field' % i, got == want))
                        else:
                            want = z3.Extract(11, 0, full)
                            got = z3.Extract(31, 20, w)
                            obs.append(('line %d %%lo field' % i, got == want))
                    else:
                        want = bv32(eval_value(ve, walk, i, c))
                        got = z3.SignExt(20, z3.Extract(31, 20, w))
                        obs.append(('line %d I-immediate == %s' % (i, ' '.join(parts[3:])), got == want))
    elif prop == 'C09':
        obs.append(('blobs are in source order', z3.BoolVal(walk.order_ok)))
        # the output is the concatenation of the blobs, nothing else
        flat = [s for b in blobs for s in SymBytes.of(b.data).segs]
        osegs = SymBytes.of(out).segs
        obs.append(('output is the concatenation of the item chunks',
                    z3.BoolVal(len(flat) == len(osegs) and all(_same_seg(a, b) for a, b in zip(flat, osegs)))))
        for i, l in enumerate(t.lines, 1):
            e = walk.per_line.get(i)
            if l['kind'] in ('label', 'const'):
                obs.append(('line %d (%s) contributes nothing' % (i, l['kind']), z3.BoolVal(e is None)))
            elif l['kind'] == 'insn':
                ok = e is not None and len(e['segs']) == 1 and e['segs'][0].length() in ((2, 4) if compress else (4,))
                obs.append(('line %d instruction is %s bytes' % (i, '2 or 4' if compress else '4'), z3.BoolVal(bool(ok))))
            elif l['kind'] == 'pseudo2':
                ok = e is not None and 1 <= len(e['segs']) <= 2 and all(s.length() in ((2, 4) if compress else (4,)) for s in e['segs'])
                obs.append(('line %d %s is one or two instructions' % (i, l['head']), z3.BoolVal(bool(ok))))
            elif l['kind'] == 'data':
                obs.append(('line %d data is %d bytes' % (i, l['size']),
                            bool_z3(e['length'] == l['size']) if e else z3.BoolVal(l['size'] == 0)))
            elif l['kind'] == 'gap':
                G = p.notes['markers'][l['marker']]
                if e is None:
                    obs.append(('line %d include_bytes contributes the file' % i, bool_z3(G == 0)))
                else:
                    ok = len(e['segs']) == 1 and e['segs'][0].kind == 'opaque' and e['segs'][0].fid == l['marker']
                    obs.append(('line %d include_bytes contributes the file' % i,
                                z3.And(z3.BoolVal(ok), bool_z3(e['length'] == G))))
            elif l['kind'] == 'align':
                N = l['n'] if isinstance(l['n'], int) else p.notes['markers'][l['n']]
                off = walk.offset_of_line(i)
                pad = e['length'] if e else 0
                zero = e is None or all(s.kind == 'zeros' or (s.kind == 'lit' and not any(s.data)) for s in e['segs'])
                obs.append(('line %d align %s pads minimally with zeros' % (i, l['n']),
                            z3.And(z3.BoolVal(bool(zero)), bool_z3(And(pad >= 0, pad < N, ((off + pad) % N) == 0)))))
    return obs


def _same_val(x, y):
    if x is y:
        return True
    if isinstance(x, SymInt) and isinstance(y, SymInt):
        return x.e.eq(y.e)
    if isinstance(x, int) and isinstance(y, int):
        return x == y
    return False


def _same_seg(a, b):
    if a is b:
        return True
    if a.kind != b.kind:
        return False
    if a.kind == 'lit':
        return a.data == b.data
    if a.kind == 'int':
        return a.n == b.n and a.endian == b.endian and _same_val(a.value, b.value)
    if a.kind == 'zeros':
        return _same_val(a.count, b.count)
    return a.fid == b.fid and _same_val(a.count, b.count) and _same_val(a.off, b.off)


def _bvx(v):
    return v.e if isinstance(v, SymInt) else BV(v, max(core._bits(v, v), 2))


def _regnum(tok):
    from .pipe import expected_register_spellings
    return expected_register_spellings()[tok]


def layout_task(prop, name, srclines, compress, gap_bits=23, k_bits=34, max_paths=600, report=None):
    report = report or prop
    t = Template(name, srclines)
    tag = 'layout:%s:%s' % (name, 'c' if compress else 'n')
    res = TaskResult(tag)
    pl = Pipeline(t.files)
    prof = common.FuncProfile()
    n_ok = 0
    n_obs = 0
    for p, kind, val, model in explore(pl, t, compress, gap_bits, k_bits, prof, res, max_paths):
        if kind != 'ok':
            continue
        n_ok += 1
        obs = obligations(prop, t, p, val, compress)
        if len(res['samples']) < 1:
            res['samples'].append(dict(template=t.src, compress=compress, inputs=inputs_of(p, model),
                                       obligations=[o[0] for o in obs][:8]))
        for oname, ob in obs:
            n_obs += 1
            r, mdl = p.sat(z3.Not(ob))
            if r == 'sat':
                inp = inputs_of(p, mdl)
                ok, detail = concrete_recheck(prop, pl, t, compress, p, mdl, oname)
                if ok:
                    res.inconc('%s: counterexample %r for "%s" did not reproduce' % (tag, inp, oname))
                else:
                    path = common.write_replay(report, tag + '_' + oname[:30], dict(
                        kind='program', property=report, source=t.text, constants={k: v for k, v in inp.items() if k in p.notes['constants']},
                        gap_bytes={k: v for k, v in inp.items() if k in p.notes['markers']}, compress=compress,
                        what=oname, detail=detail))
                    res['violations'].append(dict(harness='layout', template=name, kind=oname, compress=compress,
                                                  inputs=inp, what=detail, replay=path))
                    res.oblig(False)
            else:
                res.oblig(True if r == 'unsat' else None, 'unknown %s %s' % (tag, oname))
    generated = name.startswith(('enum_', 'rand_'))
    if n_ok == 0:
        # a generated slot sequence may be unassemblable by construction (odd data in front of a
        # jump target): that is not a defect of the harness; curated templates must assemble
        if generated:
            res['notes'].append('%s: never accepted (skipped)' % tag)
        else:
            res['vacuity'].append('%s: no accepting path' % tag)
    elif n_obs == 0 and generated:
        res['notes'].append('%s: no obligation' % tag)
    elif n_obs == 0:
        res['vacuity'].append('%s: no obligation for %s in this template' % (tag, prop))
    res['functions'] = prof.names()
    return res


# ---------------------------------------------------------------------------
# concrete re-check of a counterexample against the pristine assembler
# ---------------------------------------------------------------------------
class _CB:
    """a concrete blob with the interface Walk needs"""

    def __init__(self, lineno, data):
        self.line = type('L', (), {'number': lineno})()
        self.data = data


def concrete_recheck(prop, pl, t, compress, p, mdl, oname):
    real = pl.real_assemble(t.text, p.notes['constants'], compress, p.notes['markers'], mdl)
    if real[0] != 'ok':
        return True, 'refused'
    _, out, labels, consts, chunks = real
    blobs = [_CB(n, d) for n, d in chunks]

    class FakePath:
        notes = dict(constants={k: core.concrete(v, mdl) for k, v in p.notes['constants'].items()},
                     markers={k: core.concrete(v, mdl) for k, v in p.notes['markers'].items()})
    val = (out, labels, consts, blobs)
    if prop == 'C09':
        # concrete walk of the real chunks
        walk = Walk(t.lines, blobs)
        probs = []
        if b''.join(d for _, d in chunks) != out:
            probs.append('output is not the concatenation of the chunks')
        if not walk.order_ok:
            probs.append('chunks out of source order')
        for i, l in enumerate(t.lines, 1):
            e = walk.per_line.get(i)
            ln = e['length'] if e else 0
            if l['kind'] in ('label', 'const') and ln:
                probs.append('line %d (%s) contributes %d bytes' % (i, l['kind'], ln))
            if l['kind'] == 'insn' and ln not in ((2, 4) if compress else (4,)):
                probs.append('line %d instruction is %d bytes' % (i, ln))
            if l['kind'] == 'pseudo2' and ln not in ((2, 4, 6, 8) if compress else (4, 8)):
                probs.append('line %d %s is %d bytes' % (i, l['head'], ln))
            if l['kind'] == 'data' and ln != l['size']:
                probs.append('line %d data is %d bytes, documented %d' % (i, ln, l['size']))
            if l['kind'] == 'gap' and ln != FakePath.notes['markers'][l['marker']]:
                probs.append('line %d include_bytes contributes %d bytes' % (i, ln))
            if l['kind'] == 'align':
                off = walk.offset_of_line(i)
                data = b''.join(d for n, d in chunks if n == i)
                nn = l['n'] if isinstance(l['n'], int) else FakePath.notes['markers'][l['n']]
                if not (0 <= ln < nn and (off + ln) % nn == 0) or any(data):
                    probs.append('line %d: align %d at offset %d padded %d bytes %s' % (i, nn, off, ln, data[:8].hex()))
        return (not probs), '; '.join(probs)
    obs = obligations(prop, t, FakePath, val, compress)
    bad = []
    s = z3.Solver()
    for name, ob in obs:
        if s.check(z3.Not(ob)) != z3.unsat:
            bad.append(name)
    if not bad:
        return True, 'holds'
    offs = {}
    walk = Walk(t.lines, blobs)
    for i, l in enumerate(t.lines, 1):
        if l['kind'] == 'label':
            offs[l['name']] = walk.offset_of_line(i)
    return False, 'fails: %s; label offsets recomputed from the output %r, reported %r, %d bytes' % (
        bad, offs, labels, len(out))


# ---------------------------------------------------------------------------
# off / on product over one template (C04 ii, C12 ii, C20 ii)
# ---------------------------------------------------------------------------
def _seg_bits(s):
    """z3 bit-vector with the bytes of an int / lit segment (None for others)"""
    if s.kind == 'int':
        v = core._sx(_bvx(s.value), 72)
        return z3.Extract(8 * s.n - 1, 0, v), s.endian
    if s.kind == 'lit':
        return BV(int.from_bytes(s.data, 'little'), 8 * len(s.data)) if s.data else None, '<'
    return None, None


REACH = {'branch': 4094, 'jal': 1048574, 'cb': 254, 'cj': 2046}


def reach_cause(pl, t, b, mdl, rc):
    """why a program accepted without -c is refused with -c.  'transfer-out-of-reach-in-compressed-layout':
    the refused line is a pc-relative transfer and, in the layout the compressed program really has
    (measured on the pristine code with that line replaced by an incompressible instruction of the same
    size and a label put in front of it), its target is farther away than the instruction can reach -
    the refusal is correct for that layout; compression moved alignment padding.  Anything else: None."""
    try:
        lineno = rc[3][1]
        lines = t.text.split('\n')
        src = lines[lineno - 1]
        head = src.split()[0].lower()
        m = classify_transfer(src)
        if m is None:
            # a 12-bit operand that is pc-relative to an absolute constant: K - (position of the line)
            mo = re.search(r'%offset\(\s*(K\d+)\s*\)', src)
            if mo and head in ('addi', 'lw', 'sw', 'lb', 'lh', 'lbu', 'lhu', 'sb', 'sh', 'andi', 'ori', 'xori', 'slti', 'sltiu', 'jalr'):
                probe = lines[:lineno - 1] + ['HERE__:', 'xor x5 x6 x7'] + lines[lineno:]
                rr = pl.real_assemble('\n'.join(probe), b['notes']['constants'], True, b['notes']['markers'], mdl)
                if rr[0] == 'ok':
                    kval = core.concrete(b['notes']['constants'][mo.group(1)], mdl)
                    v = kval - rr[2]['HERE__']
                    if v < -2048 or v > 2047:
                        return 'pc-relative-operand-out-of-range-in-compressed-layout'
            return None
        kind, target = m
        probe = lines[:lineno - 1] + ['HERE__:', 'xor x5 x6 x7'] + lines[lineno:]
        rr = pl.real_assemble('\n'.join(probe), b['notes']['constants'], True, b['notes']['markers'], mdl)
        if rr[0] != 'ok' or target not in rr[2]:
            return None
        dist = rr[2][target] - rr[2]['HERE__']
        if dist > REACH[kind] or dist < -REACH[kind] - 2:
            return 'transfer-out-of-reach-in-compressed-layout'
    except Exception:
        return None
    return None


def classify_transfer(src):
    """(reach class, target label) of a literal 4-byte pc-relative transfer line, else None"""
    toks = src.replace(',', ' ').split()
    head = toks[0].lower()
    if head in ('beq', 'bne', 'blt', 'bge', 'bltu', 'bgeu') and len(toks) == 4:
        return 'branch', toks[3]
    if head == 'jal' and len(toks) == 3:
        return 'jal', toks[2]
    if head in ('beqz', 'bnez', 'blez', 'bgez', 'bltz', 'bgtz') and len(toks) == 3:
        return 'branch', toks[2]
    if head in ('bgt', 'ble', 'bgtu', 'bleu') and len(toks) == 4:
        return 'branch', toks[3]
    if head == 'j' and len(toks) == 2:
        return 'jal', toks[1]
    if head == 'jal' and len(toks) == 2:
        return 'jal', toks[1]
    return None


def product_task(prop, name, srclines, gap_bits=23, k_bits=34, max_paths=600):
    t = Template(name, srclines)
    tag = 'product:%s' % name
    res = TaskResult(tag)
    pl = Pipeline(t.files)
    prof = common.FuncProfile()
    runs = {}
    for compress in (False, True):
        lst = []
        for p, kind, val, model in explore(pl, t, compress, gap_bits, k_bits, prof, res, max_paths):
            lst.append(dict(pc=pc_formula(p), kind=kind, val=val, notes=dict(p.notes),
                            exc=(type(val).__name__, str(getattr(val, 'message', val))[:160]) if kind == 'exc' else None))
        runs[compress] = lst
    off_ok = [a for a in runs[False] if a['kind'] == 'ok']
    if not off_ok:
        if name.startswith(('enum_', 'rand_')):
            res['notes'].append('%s: never accepted without -c (skipped)' % tag)
        else:
            res['vacuity'].append('%s: no accepting path without -c' % tag)
    s = z3.Solver()
    s.set('timeout', 120000)
    import time as _t

    def q(*conds):
        t0 = _t.time()
        r = s.check(*conds)
        res['queries'] += 1
        res['solver_time'] += _t.time() - t0
        return r

    regs = sem.RegReads('regsP')
    pcv = z3.BitVec('pcP', 32)
    n_pairs = 0

    def report(kind, b, what, check):
        mdl = s.model()
        inp = {k: core.concrete(v, mdl) for k, v in {**b['notes']['constants'], **b['notes']['markers']}.items()}
        ro = pl.real_assemble(t.text, b['notes']['constants'], False, b['notes']['markers'], mdl)
        rc = pl.real_assemble(t.text, b['notes']['constants'], True, b['notes']['markers'], mdl)
        if not check(ro, rc):
            res.inconc('%s: counterexample %r for %s did not reproduce (%r / %r)' % (tag, inp, kind, ro[:1] + ro[2:3], rc[:1] + rc[2:3]))
            return
        site = dict(harness='product', kind=kind)
        if kind == 'compress-breaks-build':
            site['cause'] = reach_cause(pl, t, b, mdl, rc)
            kn = common.match_known(common.load_known(prop), site)
            if kn is not None:
                res['known'].append(dict(id=kn.get('id'), what=kn.get('what'), instance='template %s, inputs %r' % (name, inp)))
                return
        path = common.write_replay(prop, tag + '_' + kind[:30], dict(
            kind='program', property=prop, source=t.text,
            constants={k: v for k, v in inp.items() if k in b['notes']['constants']},
            gap_bytes={k: v for k, v in inp.items() if k in b['notes']['markers']},
            what=what, without_c=[ro[0], len(ro[1]) if ro[0] == 'ok' else ro[1:3], ro[2] if ro[0] == 'ok' else None],
            with_c=[rc[0], len(rc[1]) if rc[0] == 'ok' else rc[1:3], rc[2] if rc[0] == 'ok' else None]))
        res['violations'].append(dict(harness='product', template=name, kind=kind, inputs=inp, what=what,
                                      with_c=rc[1:3] if rc[0] == 'exc' else 'ok', replay=path))
        res.oblig(False)

    for b in runs[True]:
        for a in off_ok:
            joint = [a['pc'], b['pc']]
            if q(*joint) != z3.sat:
                continue
            n_pairs += 1
            if b['kind'] == 'exc':
                if prop == 'C12':
                    report('compress-breaks-build', b, 'accepted without -c, refused with -c: %s: %s' % b['exc'],
                           lambda ro, rc: ro[0] == 'ok' and rc[0] == 'exc')
                continue
            if prop == 'C12':
                res.oblig(True)
                continue
            wa = Walk(t.lines, a['val'][3])
            wb = Walk(t.lines, b['val'][3])
            if prop == 'C20':
                obs = [('binary with -c is not longer', bool_z3(wb.total <= wa.total))]
                for l in t.lines:
                    if l['kind'] == 'label':
                        obs.append(('label %s does not move up' % l['name'],
                                    bool_z3(b['val'][1][l['name']] <= a['val'][1][l['name']])))
                # every literal instruction that is the expansion of a legal non-hint RVC instruction
                # must come out in 16 bits (decided on the uncompressed run's word)
                from .comp import _eligible_concrete
                for i, l in enumerate(t.lines, 1):
                    if l['kind'] not in ('insn', 'pseudo2') or l['labels']:
                        continue
                    ia, ib = wa.insns(i), wb.insns(i)
                    for k, (na, va) in enumerate(ia):
                        if na != 4 or not isinstance(va, int) or k >= len(ib):
                            continue
                        if _eligible_concrete(va.to_bytes(4, 'little')):
                            obs.append(('line %d (%s) is emitted in 16 bits' % (i, l['src']), z3.BoolVal(ib[k][0] == 2)))
                for oname, ob in obs:
                    r = q(*joint, z3.Not(ob))
                    if r == z3.sat:
                        if 'is emitted in 16 bits' in oname:
                            ln = int(oname.split()[1])
                            report(oname, b, oname + ' fails', lambda ro, rc, ln=ln: ro[0] == 'ok' and rc[0] == 'ok' and
                                   any(len(d) == 4 and _eligible_concrete(d) for n_, d in rc[4] if n_ == ln))
                            continue
                        report(oname, b, oname + ' fails', lambda ro, rc: ro[0] == 'ok' and rc[0] == 'ok' and (
                            len(rc[1]) > len(ro[1]) or any(rc[2][k] > ro[2][k] for k in ro[2])))
                    else:
                        res.oblig(True if r == z3.unsat else None, 'unknown %s %s' % (tag, oname))
                continue
            # C04: pc-relative transfers and label values are retargeted to the same labels:
            # the compressed image must satisfy the C03 / C08 obligations in its own layout
            class _P:
                notes = b['notes']
            for sub in ('C03', 'C08'):
                for oname, ob in obligations(sub, t, _P, b['val'], True):
                    if oname.startswith('label table'):
                        continue
                    r = q(*joint, z3.Not(ob))
                    if r == z3.sat:
                        report('with -c: ' + oname, b, 'with -c the program no longer satisfies: ' + oname,
                               lambda ro, rc: rc[0] == 'ok' and not _concrete_obligations_hold(sub, t, rc, b['notes'], s.model()))
                    else:
                        res.oblig(True if r == z3.unsat else None, 'unknown %s %s' % (tag, oname))
            # C04: data identical, literal instructions same effect
            for i, l in enumerate(t.lines, 1):
                ea, eb = wa.per_line.get(i), wb.per_line.get(i)
                if l['kind'] == 'data' or l['kind'] == 'gap':
                    sa = ea['segs'] if ea else []
                    sb = eb['segs'] if eb else []
                    if l['kind'] == 'data' and l.get('value') and l['labels']:
                        continue    # label-valued data follows the label (C08)
                    ok = len(sa) == len(sb)
                    conds = []
                    if ok:
                        for x, y in zip(sa, sb):
                            if _same_seg(x, y):
                                continue
                            bx, by = _seg_bits(x)[0], _seg_bits(y)[0]
                            if bx is None or by is None or bx.size() != by.size() or _seg_bits(x)[1] != _seg_bits(y)[1]:
                                ok = False
                            else:
                                conds.append(bx == by)
                    ob = z3.And(z3.BoolVal(ok), *conds)
                    r = q(*joint, z3.Not(ob))
                    if r == z3.sat:
                        report('data line %d changed' % i, b, 'data bytes of line %d differ between the modes' % i,
                               lambda ro, rc, i=i: ro[0] == 'ok' and rc[0] == 'ok' and
                               b''.join(d for n, d in ro[4] if n == i) != b''.join(d for n, d in rc[4] if n == i))
                    else:
                        res.oblig(True if r == z3.unsat else None, 'unknown data %s' % tag)
                elif l['kind'] in ('insn', 'pseudo2') and not l['labels']:
                    ia, ib = wa.insns(i), wb.insns(i)
                    if len(ia) != len(ib) or any(n is None for n, _ in ia + ib):
                        ob = z3.BoolVal(False)
                    else:
                        parts = []
                        regs = sem.RegReads('regsP')
                        for (na, va), (nb, vb) in zip(ia, ib):
                            e1 = sem.step(sem.word_of(va, na), regs, pcv, na)
                            e2 = sem.step(sem.word_of(vb, nb), regs, pcv, nb)
                            parts.append(sem.same_effect(e1, e2))
                            if nb == 2:
                                parts.append(sem.legal_c(vb.bv(16) if isinstance(vb, SymInt) else BV(vb, 16)))
                        ob = z3.And(*parts) if parts else z3.BoolVal(True)
                    r = q(*joint, regs.constraints(), z3.Not(ob))
                    if r == z3.sat:
                        report('line %d effect changed' % i, b, 'instruction line %d (%s) has a different effect with -c' % (i, l['src']),
                               lambda ro, rc, i=i: ro[0] == 'ok' and rc[0] == 'ok' and not _lines_same_effect(
                                   [d for n, d in ro[4] if n == i], [d for n, d in rc[4] if n == i]))
                    else:
                        res.oblig(True if r == z3.unsat else None, 'unknown effect %s line %d' % (tag, i))
    if len(res['samples']) < 1:
        res['samples'].append(dict(template=t.src, paths_without_c=len(runs[False]), paths_with_c=len(runs[True]),
                                   jointly_feasible_pairs=n_pairs))
    res['functions'] = prof.names()
    return res


def _concrete_obligations_hold(prop, t, real, notes, mdl):
    _, out, labels, consts, chunks = real
    blobs = [_CB(n, d) for n, d in chunks]

    class FakePath:
        pass
    FakePath.notes = dict(constants={k: core.concrete(v, mdl) for k, v in notes['constants'].items()},
                          markers={k: core.concrete(v, mdl) for k, v in notes['markers'].items()})
    sv = z3.Solver()
    for name, ob in obligations(prop, t, FakePath, (out, labels, consts, blobs), True):
        if sv.check(z3.Not(ob)) != z3.unsat:
            return False
    return True


def _lines_same_effect(da, db):
    if len(da) != len(db):
        return False
    from .comp import _same_effect_concrete
    for x, y in zip(da, db):
        if len(y) == 4:
            if x != y:
                return False
        elif not _same_effect_concrete(y, x):
            return False
    return True

"""C16: assemble() as a pure function.  (i) frame condition: one call on a symbolic program
(every path, failing ones included) leaves everything reachable from the module unchanged and
leaks no symbolic value into it; (ii) two-call products: the result of assemble(P2) after
assemble(P1) equals the result of assemble(P2) alone for all values of both programs' symbols."""
import functools
import re
import types

import z3

from symx import core, asmshim
from symx.core import SymInt, SymBool
from symx.symbytes import SymBytes, SymByteArray
from symx.asmshim import Markers
from . import common
from .common import TaskResult
from .pipe import Pipeline, SymConstants
from .comp import pc_formula, bool_z3
from .equiv import seg_equal

SHIM_NAMES = {'c_uint32', 'c_int32', 'type', 'REGISTERS', 'struct', 'bytearray', 'bytes', 'len', 'int', 'eval',
              'log_conversion', 'log_constant', 'log', 'os', 'open', 'resolve_blobs'}


class Leak(Exception):
    pass


def fingerprint(obj, seen=None, depth=0):
    """canonical structure of everything reachable from obj (by value)"""
    if seen is None:
        seen = {'__keep__': []}
    seen['__keep__'].append(obj)      # keep temporaries alive: ids must not be reused
    if isinstance(obj, (SymInt, SymBool, SymBytes, SymByteArray)):
        raise Leak('symbolic value reachable from module state: %r' % (obj,))
    if obj is None or isinstance(obj, (bool, int, float, str, bytes)):
        return obj
    oid = id(obj)
    if oid in seen:
        return ('ref', seen[oid])
    seen[oid] = len(seen) - 1
    if depth > 12:
        return ('deep', type(obj).__name__)
    if isinstance(obj, dict):
        return ('dict', type(obj).__name__, tuple((fingerprint(k, seen, depth + 1), fingerprint(v, seen, depth + 1)) for k, v in obj.items()))
    if isinstance(obj, (list, tuple)):
        return (type(obj).__name__, tuple(fingerprint(v, seen, depth + 1) for v in obj))
    if isinstance(obj, (set, frozenset)):
        return (type(obj).__name__, tuple(sorted(repr(fingerprint(v, seen, depth + 1)) for v in obj)))
    if isinstance(obj, functools.partial):
        return ('partial', fingerprint(obj.func, seen, depth + 1), fingerprint(obj.args, seen, depth + 1),
                fingerprint(obj.keywords, seen, depth + 1))
    if isinstance(obj, types.FunctionType):
        cells = []
        for c in obj.__closure__ or ():
            try:
                cells.append(fingerprint(c.cell_contents, seen, depth + 1))
            except ValueError:
                cells.append('empty')
        return ('function', obj.__qualname__, id(obj.__code__), fingerprint(obj.__defaults__, seen, depth + 1),
                fingerprint(obj.__kwdefaults__, seen, depth + 1), tuple(cells), fingerprint(obj.__dict__, seen, depth + 1))
    if isinstance(obj, type):
        d = {k: v for k, v in vars(obj).items() if not (k.startswith('__') and k.endswith('__')) or k in ('__slots__',)}
        return ('class', obj.__qualname__, fingerprint(d, seen, depth + 1))
    if isinstance(obj, types.ModuleType):
        return ('module', obj.__name__)
    if hasattr(obj, '__dict__') and type(obj).__module__.startswith('bbx_'):
        return ('instance', type(obj).__qualname__, fingerprint(vars(obj), seen, depth + 1))
    return ('opaque', type(obj).__name__)


def module_state(mod):
    items = {k: v for k, v in vars(mod).items() if k not in SHIM_NAMES and not k.startswith('__')}
    return fingerprint(items)


PROGRAMS = [
    # (name, source, constants decl: name -> bits or (lo, hi))
    ('insn_mix', 'top:\naddi RA, RB, K\nli x5, 100000\ncall top\ndb 3\nalign 4\ndw top',
     dict(RA=(0, 40), RB=(0, 40), K=14)),
    ('li_call', 'top:\nli x5, V\ncall top\nli x6, top', dict(V=34)),
    ('branch_store', 'top:\nsw RB, K(RA)\nbeq RA RB top\nc.addi RA, 3', dict(RA=(0, 40), RB=(0, 40), K=14)),
    ('failing_reg', 'add x1, x2, RA\nK9 = UNDEF', dict(RA=(0, 40))),
    ('atomics_csr', 'lr.w RA RB 1 0\namoswap.w RA RB RA\ncsrrw RA, RB, K\nfence\nc.addi RA, 3', dict(RA=(0, 31), RB=(0, 31), K=13)),
    ('data', 'START = K * 2\nbytes 1 2 3\npack <I START\nstring hi\nshorts 4 5\ndd K', dict(K=40)),
    ('error_directive', 'addi x1 x0 K\nerror stop', dict(K=13)),
]


def frame_task(idx, compress):
    name, src, decl = PROGRAMS[idx]
    res = TaskResult('frame:%s:%s' % (name, 'c' if compress else 'n'))
    pl = Pipeline()
    prof = common.FuncProfile()
    before = module_state(pl.asm)
    x = core.Explorer(max_paths=1500)

    def fn(p):
        consts = {}
        for k, b in decl.items():
            consts[k] = p.int(k, b) if isinstance(b, int) else p.int(k, lo=b[0], hi=b[1])
        p.notes['constants'] = consts
        with prof:
            return pl.assemble(src, consts, compress, {})

    for p, kind, val in x.run(fn):
        if kind == 'limit':
            res.inconc('frame %s: %s' % (name, val))
            continue
        try:
            after = module_state(pl.asm)
            ok = after == before
            why = 'module state changed' if not ok else ''
        except Leak as e:
            ok, why = False, str(e)
        model = p.witness()
        inp = {k: core.concrete(v, model) for k, v in p.notes['constants'].items()}
        if ok:
            # the same on the pristine module with concrete inputs
            rb = module_state(pl.real)
            try:
                pl.real.assemble(src, constants=dict(inp), labels={}, compress=compress)
            except Exception:
                pass
            if module_state(pl.real) != rb:
                ok, why = False, 'module state of the pristine import changed'
            res['validated'] += 1
        if len(res['samples']) < 1:
            res['samples'].append(dict(program=src, compress=compress, inputs=inp, outcome=kind))
        if not ok and 'Leak' not in why and 'symbolic value' not in why:
            # changed module state is only a violation if it is observable: a correct memo
            # table would change the state too.  Probe: after this call, do other programs
            # still assemble to what a fresh import gives?
            observable = _observable_difference(pl.real, src, inp, compress)
            if observable is None:
                res['notes'].append('frame %s: module state changed but no probe program is affected (not a violation)' % name)
                ok = True
                before = module_state(pl.asm)
            else:
                why = 'module state changed and later results differ: ' + observable
        if ok:
            res.oblig(True)
        else:
            diff = _diff(before, after) if 'after' in dir() else why
            path = common.write_replay('C16', 'frame_%s' % name, dict(kind='program', property='C16', source=src, constants=inp, compress=compress, what=why + ': ' + str(diff)[:400]))
            res['violations'].append(dict(harness='frame', program=name, kind='module-state-changed', inputs=inp, what=why, diff=str(diff)[:400], replay=path))
            res.oblig(False)
            before = module_state(pl.asm) if 'Leak' not in why else before
    if x.truncated:
        res.inconc('frame %s: path budget exhausted' % name)
    res.absorb_stats(x.stats)
    res['functions'] = prof.names()
    return res


PROBES = [
    ('N = 5\naddi x8, x8, N\nj e\ne:', {}),
    ('addi x8, x8, N\nN:\nj N', {}),
    ('K = 3\ntop:\naddi x9, x9, K\nbnez x9 top\nli x5, K\ndw top', {}),
    ('top:\naddi x9, x9, K\nK:\nli x5, K\ncall top', {}),
    ('addi sp, sp, V\nV = 16', {}),
    ('V:\naddi sp, sp, V', {}),
]


def _observable_difference(real, src, inp, compress):
    """assemble probe programs on a fresh import and on an import that first ran (src, inp)"""
    fresh = asmshim.load_asm_pristine()
    used = asmshim.load_asm_pristine()
    try:
        used.assemble(src, constants=dict(inp), labels={}, compress=compress)
    except Exception:
        pass
    progs = [(p_, c_) for p_, c_ in PROBES] + [(s_, {k: 3 for k in d_}) for _, s_, d_ in PROGRAMS] + \
            [(s2, {k: 3 for k in d2}) for _, s1, d1, s2, d2 in SEQS] + [(s1, {k: 3 for k in d1}) for _, s1, d1, s2, d2 in SEQS]

    def run(mod, text, consts, c):
        labels, cc = {}, dict(consts)
        try:
            return ('ok', bytes(mod.assemble(text, constants=cc, labels=labels, compress=c)), labels, cc)
        except Exception as e:
            return ('exc', type(e).__name__)
    for text, consts in progs:
        for c in (False, True):
            # a brand-new import for every reference result: the reference must not carry
            # state from the previous probe either
            a, b = run(asmshim.load_asm_pristine(), text, consts, c), run(used, text, consts, c)
            if a != b:
                return 'program %r (compress=%s): fresh import %r, after the call %r' % (text, c, a[:2], b[:2])
    return None


def _diff(a, b, path='state'):
    if a == b:
        return None
    if isinstance(a, tuple) and isinstance(b, tuple) and len(a) == len(b):
        for i, (x, y) in enumerate(zip(a, b)):
            d = _diff(x, y, '%s[%d]' % (path, i))
            if d:
                return d
    return '%s: %r -> %r' % (path, str(a)[:120], str(b)[:120])


SEQS = [
    # first program (may fail), second program; symbols are independent
    ('ok_then_ok', 'one:\naddi x1, x2, K1\nj one\nA = K1', dict(K1=13), 'two:\naddi x3, x4, K2\nbeq x3 x4 two\nB = K2 + 1', dict(K2=13)),
    ('fail_then_ok', 'lbl:\nA = K1\naddi x1, x2, K1\nj nowhere', dict(K1=40), 'lbl2:\nli x5, K2\ncall lbl2\nC = K2', dict(K2=34)),
    ('same_names', 'x:\nA = K1\ndw x\ndb A', dict(K1=9), 'db 1\nx:\nA = K2\ndw x\ndb A', dict(K2=9)),
    ('compress_then_plain', 'c:\naddi x8, x8, K1\nbnez x8 c', dict(K1=8), 'c:\naddi x8, x8, K2\nbnez x8 c', dict(K2=8)),
    ('compress_both_const_then_label', 'N = K1\naddi x8, x8, N\naddi sp, sp, N\nj e\ne:', dict(K1=7), 'addi x8, x8, N\nN:\nli x5, K2\nj N', dict(K2=8)),
    ('const_then_label', 'BUF = K1\ndb 1\nVAL = K1 + 1', dict(K1=9), 'start:\nnop\nBUF:\nj BUF\ndw BUF\nVAL:\ndw VAL\ndb K2', dict(K2=7)),
    ('const_then_undefined', 'BUF = K1\naddi x1, x0, K1', dict(K1=14), 'addi x5, x0, BUF\ndb K2', dict(K2=7)),
    # both programs define the same label names, in the opposite order, with compressible instructions in between
    ('compress_both_reordered_labels', 'loop:\naddi x8, x8, K1\ndone:\nbnez x8 loop\nj done', dict(K1=8),
     'done:\naddi x8, x8, K2\nloop:\naddi x9, x9, 1\nbnez x8 loop\nj done\ndw loop', dict(K2=8)),
    # a label of the first program has the name of a constant that the second program defines and loads with li
    ('label_then_const_li', 'size:\naddi x0, x0, 0\nj size\ndw K1', dict(K1=9), 'size = K2\nli x10, size\ndw size\naddi x0, x0, 0', dict(K2=34)),
    ('compress_both_label_then_const', 'addi x8, x8, N\nN:\nj N', dict(K1=4), 'N = K2\naddi x8, x8, N\naddi sp, sp, N', dict(K2=7)),
    # the first program is refused in the middle of a numeric sequence (for the values of K1 that do not fit), the second holds sequences too
    ('fail_midsequence_then_data', 'bytes 1 2 K1\nshorts 3 K1 4', dict(K1=18), 'd:\nbytes 4 5\nshorts K2 7\nints 8\ndw d', dict(K2=12)),
]


def sequence_task(idx, mode, prop='C16'):
    """mode: 'fresh' second call gets fresh dicts; 'shared-none' both calls use the defaults (None);
    'first-dicts' the caller passes dictionaries to the first call only"""
    name, src1, d1, src2, d2 = SEQS[idx]
    res = TaskResult('sequence:%s:%s' % (name, mode))
    pl = Pipeline()
    prof = common.FuncProfile()
    comp1 = name.startswith('compress')
    comp2 = name.startswith('compress_both')

    def declare(p, decl):
        return {k: p.int(k, b) for k, b in decl.items()}

    def mark(src):
        return re.sub(r'\b(K[12])\b', r'@\1@', src)

    def second(p, c2, shared=None):
        labels2 = {}
        consts2 = SymConstants(c2)
        if mode == 'no-dicts':
            # the caller passes no dictionaries at all: symbols enter as literal numerals
            out = pl.asm.assemble(mark(src2), compress=comp2)
            return out, {}, {}
        if shared is not None:
            labels2, consts2 = shared
        else:
            Markers.table = {}
        out = pl.asm.assemble(src2, constants=consts2, labels=labels2, compress=comp2)
        if shared is not None:
            # only what the second program defines is comparable
            return out, None, None
        return out, labels2, dict(consts2)

    runs = {}
    for which in ('alone', 'after'):
        x = core.Explorer(max_paths=800)
        lst = []

        def fn(p, which=which):
            c2 = declare(p, d2)
            shared = None
            Markers.table = dict(c2)
            if which == 'after':
                c1 = declare(p, d1)
                Markers.table = {**c1, **c2}
                if mode == 'shared-dicts':
                    shared = ({}, SymConstants({**c1, **c2}))
                try:
                    with prof:
                        if mode == 'first-dicts':
                            pl.asm.assemble(src1, constants=SymConstants(c1), labels={}, compress=comp1)
                        elif mode == 'no-dicts':
                            pl.asm.assemble(mark(src1), compress=comp1)
                        elif mode == 'shared-dicts':
                            pl.asm.assemble(src1, constants=shared[1], labels=shared[0], compress=comp1)
                        else:
                            pl.asm.assemble(src1, constants=SymConstants(c1), compress=comp1)
                except Exception:
                    pass
            p.notes['c2'] = c2
            with prof:
                return second(p, c2, shared)
        for p, kind, val in x.run(fn):
            if kind == 'limit':
                res.inconc('sequence %s: %s' % (name, val))
                continue
            lst.append(dict(pc=pc_formula(p), kind=kind, val=val, exc=type(val).__name__ if kind == 'exc' else None))
        res.absorb_stats(x.stats)
        runs[which] = lst
    s = z3.Solver()
    s.set('timeout', 60000)
    n = 0
    for a in runs['alone']:
        for b in runs['after']:
            if s.check(a['pc'], b['pc']) != z3.sat:
                continue
            n += 1
            if a['kind'] != b['kind']:
                ob = z3.BoolVal(False)
            elif a['kind'] == 'exc':
                ob = z3.BoolVal(a['exc'] == b['exc'])
            else:
                (oa, la, ca), (ob_, lb, cb) = a['val'], b['val']
                if lb is None:          # shared dictionaries: compare the bytes only
                    la = ca = lb = cb = {}
                if set(la) != set(lb) or set(ca) != set(cb):
                    ob = z3.BoolVal(False)
                else:
                    ob = z3.And(seg_equal(SymBytes.of(oa).segs, SymBytes.of(ob_).segs),
                                *[bool_z3(la[k] == lb[k]) for k in la], *[bool_z3(ca[k] == cb[k]) for k in ca])
            r = s.check(a['pc'], b['pc'], z3.Not(ob))
            res['queries'] += 2
            if r == z3.sat:
                mdl = s.model()
                vals = {k: mdl.eval(z3.BitVec(k, core._bits(-(1 << (bits - 1)), (1 << (bits - 1)) - 1)), model_completion=True).as_signed_long()
                        for k, bits in {**d1, **d2}.items()}
                same = _concrete_sequence(pl.real, src1, {k: vals[k] for k in d1}, src2, {k: vals[k] for k in d2}, mode, comp1, comp2)
                if same:
                    res.inconc('sequence %s: counterexample %r did not reproduce' % (name, vals))
                else:
                    path = common.write_replay(prop, 'sequence_%s_%s' % (name, mode), dict(kind='sequence', property=prop, first=src1, second=src2, values=vals, mode=mode,
                                                                                              what='the second result depends on the first call'))
                    res['violations'].append(dict(harness='sequence', seq=name, mode=mode, kind='history-dependent', values=vals, replay=path))
                    res.oblig(False)
            else:
                res.oblig(True if r == z3.unsat else None, 'unknown sequence %s' % name)
    # concrete replay of one witness pair for validation
    if runs['alone'] and runs['after']:
        vals = {k: 3 for k in {**d1, **d2}}
        if _concrete_sequence(pl.real, src1, {k: 3 for k in d1}, src2, {k: 3 for k in d2}, mode, comp1, comp2):
            res['validated'] += 1
    if n == 0:
        res['vacuity'].append('sequence %s: no jointly feasible pair' % name)
    res['samples'].append(dict(first=src1, second=src2, mode=mode, pairs=n))
    res['functions'] = prof.names()
    return res


def _concrete_sequence(real, src1, c1, src2, c2, mode, comp1, comp2=False):
    def lit(src):
        return re.sub(r'\b(K[12])\b', lambda m: str({**c1, **c2}[m.group(1)]), src)

    def run2(shared=None):
        labels, consts = {}, dict(c2)
        try:
            if mode == 'no-dicts':
                return ('ok', bytes(real.assemble(lit(src2), compress=comp2)))
            if shared is not None:
                return ('ok', bytes(real.assemble(src2, constants=shared[1], labels=shared[0], compress=comp2)))
            out = real.assemble(src2, constants=consts, labels=labels, compress=comp2)
            return ('ok', bytes(out), labels, consts)
        except Exception as e:
            return ('exc', type(e).__name__)
    alone = run2()
    shared = ({}, {**c1, **c2}) if mode == 'shared-dicts' else None
    try:
        if mode == 'first-dicts':
            real.assemble(src1, constants=dict(c1), labels={}, compress=comp1)
        elif mode == 'no-dicts':
            real.assemble(lit(src1), compress=comp1)
        elif mode == 'shared-dicts':
            real.assemble(src1, constants=shared[1], labels=shared[0], compress=comp1)
        else:
            real.assemble(src1, constants=dict(c1), compress=comp1)
    except Exception:
        pass
    after = run2(shared)
    return after[:2] == alone[:2] if mode == 'shared-dicts' else after == alone


def incdirs_task(second):
    """a caller re-uses one include_dirs list for two projects (second = 'B': has its own
    config.asm; 'C': has none and must be refused): the second result must equal the result of
    assembling the second project alone, and the caller's list must be left as it was"""
    from symx import vfs as vfsmod
    res = TaskResult('sequence:include_dirs:%s' % second)
    asm = asmshim.load_asm_shimmed()
    real = asmshim.load_asm_pristine()
    prof = common.FuncProfile()
    files = {'/projA/main.asm': 'include config.asm\naddi x10, x0, VALUE\na_end:',
             '/projA/config.asm': 'VALUE = @KA@',
             '/projB/main.asm': 'include config.asm\naddi x11, x0, VALUE\nb_end:',
             '/projB/config.asm': 'VALUE = @KB@',
             '/projC/main.asm': 'include config.asm\naddi x12, x0, VALUE'}
    target = '/proj%s/main.asm' % second
    runs = {}
    for which in ('alone', 'after'):
        x = core.Explorer(max_paths=400)
        lst = []

        def fn(p, which=which):
            v = vfsmod.VFS('/work')
            for d in ('/common', '/work'):
                v.add_dir(d)
            for pth, text in files.items():
                v.add_text(pth, text)
            v.install(asm)
            ka, kb = p.int('KA', 14), p.int('KB', 14)
            Markers.table = {'KA': ka, 'KB': kb}
            dirs = ['/common']
            p.notes['dirs'] = dirs
            if which == 'after':
                try:
                    with prof:
                        asm.assemble('/projA/main.asm', include_dirs=dirs)
                except Exception:
                    pass
                p.notes['dirs_after_first'] = list(dirs)
            labels, consts = {}, {}
            with prof:
                out = asm.assemble(target, include_dirs=dirs, labels=labels, constants=consts)
            return out, labels, consts
        for p, kind, val in x.run(fn):
            if kind == 'limit':
                res.inconc('include_dirs sequence: %s' % val)
                continue
            # frame condition on the caller's argument
            ok = p.notes['dirs'] == ['/common'] and p.notes.get('dirs_after_first', ['/common']) == ['/common']
            if not ok:
                model = p.witness()
                vals = {k: core.concrete(v, model) for k, v in x.inputs.items()}
                got = _concrete_incdirs(real, files, vals, target)
                if got['dirs_ok']:
                    res.inconc('include_dirs: list mutation did not reproduce')
                else:
                    path = common.write_replay('C16', 'incdirs_list_%s' % second, dict(kind='sequence', property='C16', files=files, values=vals,
                                                                                      what='the caller\'s include_dirs list was modified: %r' % (got['dirs'],)))
                    res['violations'].append(dict(harness='sequence', seq='include_dirs', kind='caller-list-mutated', dirs=got['dirs'], replay=path))
            res.oblig(ok)
            lst.append(dict(pc=pc_formula(p), kind=kind, val=val, exc=type(val).__name__ if kind == 'exc' else None))
        res.absorb_stats(x.stats)
        runs[which] = lst
    s = z3.Solver()
    n = 0
    for a in runs['alone']:
        for b in runs['after']:
            if s.check(a['pc'], b['pc']) != z3.sat:
                continue
            n += 1
            if a['kind'] != b['kind']:
                ob = z3.BoolVal(False)
            elif a['kind'] == 'exc':
                ob = z3.BoolVal(a['exc'] == b['exc'])
            else:
                (oa, la, ca), (ob_, lb, cb) = a['val'], b['val']
                ob = z3.BoolVal(False) if (set(la) != set(lb) or set(ca) != set(cb)) else z3.And(
                    seg_equal(SymBytes.of(oa).segs, SymBytes.of(ob_).segs),
                    *[bool_z3(la[k] == lb[k]) for k in la], *[bool_z3(ca[k] == cb[k]) for k in ca])
            r = s.check(a['pc'], b['pc'], z3.Not(ob))
            res['queries'] += 2
            if r == z3.sat:
                mdl = s.model()
                vals = {k: mdl.eval(z3.BitVec(k, 14), model_completion=True).as_signed_long() for k in ('KA', 'KB')}
                got = _concrete_incdirs(real, files, vals, target)
                if got['same']:
                    res.inconc('include_dirs: counterexample %r did not reproduce' % vals)
                else:
                    path = common.write_replay('C16', 'incdirs_%s' % second, dict(kind='sequence', property='C16', files=files, values=vals,
                                               what='project %s assembled after project A with the same include_dirs list differs from project %s alone: %r vs %r' % (second, second, got['after'], got['alone'])))
                    res['violations'].append(dict(harness='sequence', seq='include_dirs', kind='history-dependent', values=vals,
                                                  after=str(got['after'])[:200], alone=str(got['alone'])[:200], replay=path))
                    res.oblig(False)
            else:
                res.oblig(True if r == z3.unsat else None, 'unknown include_dirs sequence')
    got = _concrete_incdirs(real, files, dict(KA=7, KB=9), target)
    if got['same'] and got['dirs_ok']:
        res['validated'] += 1
    if n == 0:
        res['vacuity'].append('include_dirs sequence: no feasible pair')
    res['samples'].append(dict(first='/projA/main.asm', second=target, shared_include_dirs=['/common'], pairs=n))
    res['functions'] = prof.names()
    return res


def _concrete_incdirs(real, files, vals, target):
    import os
    import shutil
    import tempfile
    root = tempfile.mkdtemp(prefix='bbverif_')
    old = os.getcwd()
    try:
        for d in ('/common', '/work'):
            os.makedirs(root + d, exist_ok=True)
        for pth, text in files.items():
            os.makedirs(os.path.dirname(root + pth), exist_ok=True)
            with open(root + pth, 'w') as f:
                f.write(text.replace('@KA@', str(vals['KA'])).replace('@KB@', str(vals['KB'])))
        os.chdir(root + '/work')

        def run(dirs):
            labels, consts = {}, {}
            try:
                out = real.assemble(root + target, include_dirs=dirs, labels=labels, constants=consts)
                return ('ok', bytes(out).hex(), labels, consts)
            except Exception as e:
                return ('exc', type(e).__name__)
        alone = run([root + '/common'])
        dirs = [root + '/common']
        try:
            real.assemble(root + '/projA/main.asm', include_dirs=dirs)
        except Exception:
            pass
        after = run(dirs)
        return dict(same=alone == after, alone=alone, after=after, dirs=[d[len(root):] for d in dirs], dirs_ok=dirs == [root + '/common'])
    finally:
        os.chdir(old)
        shutil.rmtree(root, ignore_errors=True)


def hashseed_task(tname):
    """fresh processes under different PYTHONHASHSEED values: every path witness of the symbolic
    include-tree exploration (which files exist where, working directory, -i, operand) is replayed on
    the pristine code in four processes with different hash seeds; the results must be identical"""
    import json as _json
    import subprocess
    import tempfile
    from symx import vfs as vfsmod
    from . import include
    res = TaskResult('hashseed:%s' % tname)
    tree = include.TREES[tname]
    asm = asmshim.load_asm_shimmed()
    roles = [r for r, (pth, lines) in tree['cands'].items() if lines is not None]
    x = core.Explorer()
    jobs = []

    def fn(p):
        import posixpath
        K = p.int('K0', 14)
        v = vfsmod.VFS('/proj/run')
        for d in include.CWDS + ['/proj/inc']:
            v.add_dir(d)
        for pth, lines in tree['fixed'].items():
            v.add_text(pth, '\n'.join(lines))
        ex = {}
        for r in roles:
            pth, lines = tree['cands'][r]
            ex[r] = p.bool('exists_' + r)
            v.add_text(posixpath.normpath(pth), '\n'.join(lines), exists=ex[r])
        use_i = p.bool('use_i')
        v.install(asm)
        Markers.table = {}
        p.notes.update(ex=ex, use_i=use_i, K=K)
        return asm.assemble(tree['main'], constants={'K0': K}, labels={}, include_dirs=[tree['idir']] if use_i else [])

    for p, kind, val in x.run(fn):
        if kind == 'limit':
            res.inconc('hashseed %s: %s' % (tname, val))
            continue
        m = p.witness()
        exv = {r: core.concrete(b, m) for r, b in p.notes['ex'].items()}
        # every candidate the path did not look at may exist or not: take both extremes
        for fill in (exv, {r: True for r in exv}):
            jobs.append(dict(tree=tname, exists=fill, cwd='/proj/run', idirs=[tree['idir']] if core.concrete(p.notes['use_i'], m) else [],
                             K=core.concrete(p.notes['K'], m)))
    res.absorb_stats(x.stats)
    uniq = []
    for j in jobs:
        if j not in uniq:
            uniq.append(j)
    jf = tempfile.NamedTemporaryFile('w', suffix='.json', delete=False)
    _json.dump(uniq, jf)
    jf.close()
    worker = __import__('os').path.join(common.VERIF, 'tools', 'hs_worker.py')
    results = {}
    try:
        for seed in ('0', '1', '2', '12345'):
            env = dict(__import__('os').environ, PYTHONHASHSEED=seed, VERIF_REPO=common.REPO)
            pr = subprocess.run([__import__('sys').executable, worker, jf.name], capture_output=True, text=True, env=env, timeout=600)
            if pr.returncode != 0:
                res.inconc('hashseed worker failed under seed %s: %s' % (seed, pr.stderr[-300:]))
                continue
            results[seed] = _json.loads(pr.stdout.strip().splitlines()[-1])
    finally:
        __import__('os').unlink(jf.name)
    seeds = sorted(results)
    for i, j in enumerate(uniq):
        outs = {s: results[s][i] for s in seeds}
        ok = len({_json.dumps(o) for o in outs.values()}) == 1
        res['validated'] += len(seeds)
        if not ok:
            path = common.write_replay('C16', 'hashseed_%s_%d' % (tname, i), dict(kind='hashseed', property='C16', setting=j, results=outs,
                                                                                  what='result depends on PYTHONHASHSEED'))
            res['violations'].append(dict(harness='hashseed', kind='hash-seed-dependent', setting=j,
                                          results={s: o[:2] for s, o in outs.items()}, replay=path))
        res.oblig(ok)
    res['samples'].append(dict(tree=tname, settings=len(uniq), hash_seeds=seeds))
    if not uniq:
        res['vacuity'].append('hashseed %s: no setting' % tname)
    return res


# programs in which names are shared between the namespaces / many names exist: which one wins, and the order of the
# reported tables, must not depend on the string hash seed of the process
HS_PROGRAMS = [
    'buf = 0x7f\naddi x1, x0, buf\nbuf:\ndw buf\naddi x2, x0, buf',
    'start:\nsize = 12\nsize:\nli x5, size\ndw size\nj start',
    'a:\nb:\nc:\nd:\ne:\nf:\ng:\nh:\naddi x8, x8, 1\nj a\nbeq x8 x0 h\ndw e\ndw %offset(c)',
    'K1 = 1\nK2 = K1 + 1\nK3 = K2 * 2\nK4 = K3 | K1\nK5 = K4 << K2\ndw K5\naddi x1, x0, K4\nK1:\nj K1',
    's1:\naddi s1, s1, 1\nt0:\nli t0, 5\nj s1\nbeqz t0 t0',
    'x = 3\ny = x + 1\nx:\ny:\ndb x\ndb y\nli x5, y',
    'n = 4\naddi x8, x8, n\nn:\naddi x8, x8, n\nc.addi x8, n\nj n',
]


def hashseed_programs_task():
    import json as _json
    import os as _os
    import subprocess
    import sys as _sys
    import tempfile
    res = TaskResult('hashseed:programs')
    jobs = [dict(program=src, compress=c) for src in HS_PROGRAMS for c in (False, True)]
    jf = tempfile.NamedTemporaryFile('w', suffix='.json', delete=False)
    _json.dump(jobs, jf)
    jf.close()
    worker = _os.path.join(common.VERIF, 'tools', 'hs_worker.py')
    results = {}
    try:
        for seed in ('0', '1', '2', '3', '5', '17', '12345', '4242'):
            env = dict(_os.environ, PYTHONHASHSEED=seed, VERIF_REPO=common.REPO)
            pr = subprocess.run([_sys.executable, worker, jf.name], capture_output=True, text=True, env=env, timeout=600)
            if pr.returncode != 0:
                res.inconc('hashseed worker failed under seed %s: %s' % (seed, pr.stderr[-300:]))
                continue
            results[seed] = _json.loads(pr.stdout.strip().splitlines()[-1])
    finally:
        _os.unlink(jf.name)
    seeds = sorted(results)
    res['paths'] = len(jobs)
    res['decisions'] = len(jobs) * len(seeds)
    for i, j in enumerate(jobs):
        outs = {s_: results[s_][i] for s_ in seeds}
        ok = len({_json.dumps(o) for o in outs.values()}) == 1
        res['validated'] += len(seeds)
        if not ok:
            path = common.write_replay('C16', 'hashseed_program_%d' % i, dict(kind='hashseed', property='C16', setting=j, results=outs,
                                                                              what='result depends on PYTHONHASHSEED'))
            res['violations'].append(dict(harness='hashseed', kind='hash-seed-dependent', setting=j,
                                          results={s_: o[:2] for s_, o in outs.items()}, replay=path))
        res.oblig(ok)
    res['samples'].append(dict(programs=len(HS_PROGRAMS), hash_seeds=seeds))
    return res

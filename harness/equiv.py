"""Two spellings of the same program, sharing their symbols, must have the same outcome
(C11: constant vs literal; C13: imm(reg) vs reg, imm).  Also sequential constant
definitions against a fixed-width reference evaluation (C11)."""
import z3

from symx import core
from symx.core import SymInt, SymBool, And, Or, Not
from symx.symbytes import SymBytes
from spec import isa
from . import common
from .common import TaskResult
from .pipe import Pipeline, templates, declare_text, sym_outcome_concrete, outcomes_agree
from .comp import explore_mode, pc_formula, bool_z3
from .layout import _same_seg, _seg_bits
import re


def seg_equal(sa, sb):
    """z3 Bool: the two segment lists denote the same bytes (same shapes)"""
    if len(sa) != len(sb):
        return z3.BoolVal(False)
    conds = []
    for x, y in zip(sa, sb):
        if _same_seg(x, y):
            continue
        bx, by = _seg_bits(x)[0], _seg_bits(y)[0]
        if bx is None or by is None or bx.size() != by.size() or _seg_bits(x)[1] != _seg_bits(y)[1]:
            return z3.BoolVal(False)
        conds.append(bx == by)
    return z3.And(*conds) if conds else z3.BoolVal(True)


def pairs_for(insn, which):
    """[(srcA, mapA, srcB, mapB, label)]"""
    out = []
    ts = templates(insn)
    if which == 'const-vs-literal':
        for src, mp in ts:
            if any(how == 'const' for how, _ in mp.values()):
                src2 = re.sub(r'\b(RA|RB|RC|K)\b', r'@\1@', src)
                out.append((src, mp, src2, {o: ('marker', nm) for o, (how, nm) in mp.items()}, 'constant/alias vs literal'))
    else:
        if len(ts) == 2:
            out.append((ts[0][0], ts[0][1], ts[1][0], ts[1][1], 'reg, imm vs imm(reg)'))
    return out


def equiv_task(prop, m, widths, which, compress):
    res = TaskResult('equiv:%s:%s:%s' % (which, m, 'c' if compress else 'n'))
    insn = isa.T[m]
    pl = Pipeline()
    prof = common.FuncProfile()
    import time as _t
    for srcA, mapA, srcB, mapB, label in pairs_for(insn, which):
        A, xa = explore_mode(pl, srcA, insn, mapA, widths, compress, prof, res, 'equiv ' + m)
        B, xb = explore_mode(pl, srcB, insn, mapB, widths, compress, prof, res, 'equiv ' + m)
        s = z3.Solver()
        s.set('timeout', 60000)
        npairs = 0
        for a in A:
            for b in B:
                t0 = _t.time()
                r = s.check(a['pc'], b['pc'])
                res['queries'] += 1
                res['solver_time'] += _t.time() - t0
                if r != z3.sat:
                    continue
                npairs += 1
                if a['kind'] != b['kind']:
                    ob = z3.BoolVal(False)
                elif a['kind'] == 'exc':
                    ob = z3.BoolVal(True)
                else:
                    ob = seg_equal(SymBytes.of(a['val'][0]).segs, SymBytes.of(b['val'][0]).segs)
                t0 = _t.time()
                r = s.check(a['pc'], b['pc'], z3.Not(ob))
                res['queries'] += 1
                res['solver_time'] += _t.time() - t0
                if r == z3.sat:
                    mdl = s.model()
                    ra = pl.real_assemble(srcA, a['notes']['constants'], compress, a['notes']['markers'], mdl)
                    rb = pl.real_assemble(srcB, b['notes']['constants'], compress, b['notes']['markers'], mdl)
                    same = ra[0] == rb[0] and (ra[0] == 'exc' or ra[1] == rb[1])
                    cops = {k: core.concrete(v, mdl) for k, v in a['notes']['ops'].items()}
                    if same:
                        res.inconc('equiv %s: counterexample %r did not reproduce' % (m, cops))
                    else:
                        path = common.write_replay(prop, 'equiv_%s_%s' % (m, which), dict(
                            kind='text', property=prop, mnemonic=m, source=srcA, source_b=srcB, operands=cops, compress=compress,
                            constants={k: core.concrete(v, mdl) for k, v in a['notes']['constants'].items()},
                            what='%s: outcomes differ' % label,
                            a=[ra[0], ra[1].hex() if ra[0] == 'ok' else ra[1:3]], b=[rb[0], rb[1].hex() if rb[0] == 'ok' else rb[1:3]]))
                        res['violations'].append(dict(harness='equiv', mnemonic=m, kind=which, compress=compress, operands=cops,
                                                      a_source=srcA, b_source=srcB,
                                                      a=[ra[0], ra[1].hex() if ra[0] == 'ok' else ra[1:3]],
                                                      b=[rb[0], rb[1].hex() if rb[0] == 'ok' else rb[1:3]], replay=path))
                        res.oblig(False)
                else:
                    res.oblig(True if r == z3.unsat else None, 'unknown equiv %s' % m)
        if len(res['samples']) < 2 and A:
            res['samples'].append(dict(a=srcA, b=srcB, compress=compress, feasible_pairs=npairs, witness=A[0]['witness']))
        if npairs == 0:
            res['vacuity'].append('equiv %s %s: no jointly feasible pair' % (m, which))
    res['functions'] = prof.names()
    return res


# ---------------------------------------------------------------------------
# sequential constant definitions
# ---------------------------------------------------------------------------
W = 160
OPS = [
    ('B', 'A + 3', lambda a: a + 3),
    ('C', 'A * 5', lambda a: a * 5),
    ('D', 'A // 7', lambda a: _floordiv(a, 7)),
    ('E', 'A % 9', lambda a: _floormod(a, 9)),
    ('F', 'A << 2', lambda a: a << 2),
    ('G', 'A >> 3', lambda a: a >> 3),
    ('H', 'A & 0xff', lambda a: a & 0xff),
    ('I', 'A | 0x10', lambda a: a | 0x10),
    ('J', 'A ^ 0x55', lambda a: a ^ 0x55),
    ('K', '~A', lambda a: ~a),
    ('L', '-A', lambda a: -a),
    ('M', '(A + 1) * 2 - 0b101', lambda a: (a + 1) * 2 - 5),
    ('N', 'A - 0x10 * (3 + 1)', lambda a: a - 64),
    ('P', '(A >> 1) & 0b11111', lambda a: (a >> 1) & 31),
]


def _floordiv(a, n):
    q = a / n
    r = z3.SRem(a, z3.BitVecVal(n, W))
    return z3.If(r < 0, q - 1, q)


def _floormod(a, n):
    r = z3.SRem(a, z3.BitVecVal(n, W))
    return z3.If(r < 0, r + n, r)


def constdef_task(bits):
    """A = <symbolic>; X = <expr over A> for each documented operator; Y = X + B (earlier
    constants by name): the constants dict must hold the integer value of each expression"""
    res = TaskResult('constdef')
    pl = Pipeline()
    prof = common.FuncProfile()
    lines = ['A = @V@'] + ['%s = %s' % (n, e) for n, e, _ in OPS] + ['Q = B + C - M', 'dw H',
                                                                       'R = 0', 'R = R + 1', 'R = R + A', 'S = 5', 'S = B', 'db R & 1']
    src = '\n'.join(lines)
    x = core.Explorer(timeout_ms=120000)

    def fn(p):
        V = p.int('V', bits)
        p.notes.update(constants={}, markers={'V': V})
        with prof:
            return pl.assemble(src, {}, False, {'V': V})

    n_ok = 0
    for p, kind, val in x.run(fn):
        if kind == 'limit':
            res.inconc('constdef: %s' % val)
            continue
        model = p.witness()
        real = pl.real_assemble(src, {}, False, p.notes['markers'], model)
        symc = sym_outcome_concrete(kind, val, model)
        ok = outcomes_agree(symc, real)
        if ok and kind == 'ok':
            ok = {k: core.concrete(v, model) for k, v in val[2].items()} == real[3]
        if not ok:
            res.inconc('constdef: witness replay mismatch')
            continue
        res['validated'] += 1
        if kind != 'ok':
            cv = core.concrete(p.notes['markers']['V'], model)
            path = common.write_replay('C11', 'constdef_refused', dict(kind='program', property='C11', source=src.replace('@V@', str(cv)), what='refused: %r' % (real[1:3],)))
            res['violations'].append(dict(harness='constdef', kind='refused', V=cv, real=real[1:3], replay=path))
            res.oblig(False)
            continue
        n_ok += 1
        consts = val[2]
        a = p.notes['markers']['V'].bv(W)
        want = {'A': a}
        for n, e, f in OPS:
            want[n] = f(a)
        want['Q'] = want['B'] + want['C'] - want['M']
        want['R'] = a + 1            # a name defined again takes the value of its latest definition
        want['S'] = want['B']
        if len(res['samples']) < 1:
            res['samples'].append(dict(source=lines, V=core.concrete(p.notes['markers']['V'], model), constants=real[3]))
        for n, w in want.items():
            got = consts.get(n)
            if got is None:
                ob = z3.BoolVal(False)
            else:
                ob = (got.bv(W) if isinstance(got, SymInt) else z3.BitVecVal(got, W)) == w
            if n in ('D', 'E'):
                # division / remainder by a constant: decided for |A| < 2^23 only (two
                # division circuits at the full width do not finish); stated in the bounds.
                # Within that range the reference is computed on 32 bits and sign-extended.
                Vv = p.notes['markers']['V']
                a32 = z3.Extract(31, 0, a)
                k = z3.BitVecVal(7 if n == 'D' else 9, 32)
                rem = z3.SRem(a32, k)
                ref32 = z3.If(rem < 0, a32 / k - 1, a32 / k) if n == 'D' else z3.If(rem < 0, rem + k, rem)
                if got is not None:
                    ob = (got.bv(W) if isinstance(got, SymInt) else z3.BitVecVal(got, W)) == z3.SignExt(W - 32, ref32)
                ob = z3.Or(z3.Not(bool_z3(And(Vv >= -(1 << 23), Vv < (1 << 23)))), ob)
            r, mdl = p.sat(z3.Not(ob))
            if r == 'sat':
                cv = core.concrete(p.notes['markers']['V'], mdl)
                rr = pl.real_assemble(src, {}, False, p.notes['markers'], mdl)
                env = {'A': cv}
                for nn, ee, _ in OPS:
                    env[nn] = eval(ee, {'__builtins__': {}}, env)
                env['Q'] = env['B'] + env['C'] - env['M']
                env['R'] = cv + 1
                env['S'] = env['B']
                expect = env[n]
                if rr[0] != 'ok' or rr[3].get(n) != expect:
                    path = common.write_replay('C11', 'constdef_' + n, dict(kind='program', property='C11', source=src.replace('@V@', str(cv)), what='constant %s: got %r, integer arithmetic gives %r' % (n, rr[3].get(n) if rr[0] == 'ok' else rr, expect)))
                    res['violations'].append(dict(harness='constdef', kind='wrong-value', constant=n, V=cv, got=rr[3].get(n) if rr[0] == 'ok' else None, want=expect, replay=path))
                    res.oblig(False)
                else:
                    res.inconc('constdef %s: counterexample did not reproduce' % n)
            else:
                res.oblig(True if r == 'unsat' else None, 'unknown constdef %s' % n)
    if n_ok == 0:
        res['vacuity'].append('constdef: no accepting path')
    res.absorb_stats(x.stats)
    res['functions'] = prof.names()
    return res


def charlit_table_task():
    """finite table (94 entries, compared concretely like the register table): every printable
    ASCII character literal evaluates to its code, as a constant and as an operand.  A lone
    backslash is a don't-care (escape syntax)."""
    from symx import asmshim
    res = TaskResult('charlit-table')
    real = asmshim.load_asm_pristine()
    res['paths'] = 1
    res['decisions'] = 1
    bad = []
    cases = [(chr(n), n) for n in range(32, 127) if chr(n) != '\\']
    # escaped spellings
    cases += [("\\'", 39), ('\\\\', 92), ('\\n', 10), ('\\t', 9), ('\\x41', 65), ('\\0', 0)]
    for c, n in cases:
        for src, check in (("K = '%s'\ndb K" % c, lambda out, k: k.get('K') == n and bytes(out) == bytes([n])),
                           ("addi x5, x0, '%s'" % c, lambda out, k: bytes(out) == ((n << 20) | (5 << 7) | 0x13).to_bytes(4, 'little'))):
            k = {}
            try:
                out = real.assemble(src, constants=k)
                ok = check(out, k)
                got = (bytes(out).hex(), dict(k))
            except Exception as e:
                ok, got = False, repr(e)[:120]
            res.oblig(ok)
            res['validated'] += 1
            if not ok:
                bad.append((c, src, got))
    res['samples'].append(dict(characters=94, forms=2))
    for c, src, got in bad[:6]:
        path = common.write_replay('C11', 'charlit_%d' % ord(c[-1]), dict(kind='program', property='C11', source=src, what='character literal %r: %r' % (c, got)))
        res['violations'].append(dict(harness='charlit-table', kind='char-literal', char=c, source=src, got=str(got), replay=path))
    return res


def data_equiv_task(d, bits):
    """db/dh/dw/dd with a constant vs the literal value: same outcome"""
    res = TaskResult('equiv-data:%s' % d)
    pl = Pipeline()
    prof = common.FuncProfile()
    import time as _t
    runs = []
    for src, how in (('%s K' % d, 'const'), ('%s @K@' % d, 'marker')):
        x = core.Explorer()
        lst = []

        def fn(p, src=src, how=how):
            K = p.int('K', bits)
            c, mk = ({'K': K}, {}) if how == 'const' else ({}, {'K': K})
            p.notes.update(constants=c, markers=mk)
            with prof:
                return pl.assemble(src, c, False, mk)
        for p, kind, val in x.run(fn):
            if kind == 'limit':
                res.inconc('data equiv: %s' % val)
                continue
            model = p.witness()
            real = pl.real_assemble(src, p.notes['constants'], False, p.notes['markers'], model)
            if not outcomes_agree(sym_outcome_concrete(kind, val, model), real):
                res.inconc('data equiv %s: witness replay mismatch' % d)
                continue
            res['validated'] += 1
            lst.append(dict(pc=pc_formula(p), kind=kind, val=val, notes=dict(p.notes), src=src))
        res.absorb_stats(x.stats)
        runs.append(lst)
    s = z3.Solver()
    n = 0
    for a in runs[0]:
        for b in runs[1]:
            if s.check(a['pc'], b['pc']) != z3.sat:
                continue
            n += 1
            if a['kind'] != b['kind']:
                ob = z3.BoolVal(False)
            elif a['kind'] == 'exc':
                ob = z3.BoolVal(True)
            else:
                ob = seg_equal(SymBytes.of(a['val'][0]).segs, SymBytes.of(b['val'][0]).segs)
            r = s.check(a['pc'], b['pc'], z3.Not(ob))
            res['queries'] += 2
            if r == z3.sat:
                mdl = s.model()
                ra = pl.real_assemble(a['src'], a['notes']['constants'], False, a['notes']['markers'], mdl)
                rb = pl.real_assemble(b['src'], b['notes']['constants'], False, b['notes']['markers'], mdl)
                kv = core.concrete(a['notes']['constants']['K'], mdl)
                if ra[0] == rb[0] and (ra[0] == 'exc' or ra[1] == rb[1]):
                    res.inconc('data equiv %s: counterexample K=%d did not reproduce' % (d, kv))
                else:
                    path = common.write_replay('C11', 'equiv_data_%s' % d, dict(kind='program', property='C11', source=a['src'], constants={'K': kv}, what='constant vs literal differ'))
                    res['violations'].append(dict(harness='equiv-data', directive=d, K=kv, a=str(ra[:2]), b=str(rb[:2]), replay=path))
                    res.oblig(False)
            else:
                res.oblig(True if r == z3.unsat else None, 'unknown data equiv')
    if n == 0:
        res['vacuity'].append('data equiv %s: no feasible pair' % d)
    res['samples'].append(dict(a='%s K' % d, b='%s <literal>' % d, feasible_pairs=n))
    res['functions'] = prof.names()
    return res


def clash_task(which, compress):
    """a constant that shares its name with a label (separate namespaces: the constant wins):
    the program must equal the one written with the literal value, for every value"""
    res = TaskResult('equiv-clash:%s:%s' % (which, 'c' if compress else 'n'))
    pl = Pipeline({'/w/pad.bin': ('bytes', b'\x00' * 4096)})
    prof = common.FuncProfile()
    if which == 'START':
        # constant defined before the label of the same name
        progA = 'START = @V@\nnop\nSTART:\nli x5, START\ndw START\nlui x6, %hi(START)\naddi x6, x6, %lo(START)'
        progB = 'nop\nSTART:\nli x5, @V@\ndw @V@\nlui x6, %hi(@V@)\naddi x6, x6, %lo(@V@)'
    else:
        # label first, a far label (beyond the li single-instruction range), then the constant
        progA = 'nop\ninclude_bytes pad.bin\nBUF:\nBUF = @V@\nli x7, BUF\npack <I BUF'
        progB = 'nop\ninclude_bytes pad.bin\nBUF:\nli x7, @V@\npack <I @V@'
    runs = []
    for src in (progA, progB):
        x = core.Explorer(max_paths=800)
        lst = []

        def fn(p, src=src):
            V = p.int('V', lo=0, hi=(1 << 32) - 1)
            mk = {'V': V}
            p.notes.update(constants={}, markers=mk)
            with prof:
                return pl.assemble(src, {}, compress, mk)
        for p, kind, val in x.run(fn):
            if kind == 'limit':
                res.inconc('clash: %s' % val)
                continue
            model = p.witness()
            real = pl.real_assemble(src, {}, compress, p.notes['markers'], model)
            if not outcomes_agree(sym_outcome_concrete(kind, val, model), real):
                res.inconc('clash: witness replay mismatch')
                continue
            res['validated'] += 1
            lst.append(dict(pc=pc_formula(p), kind=kind, val=val, notes=dict(p.notes), src=src))
        res.absorb_stats(x.stats)
        runs.append(lst)
    s = z3.Solver()
    n = 0
    for a in runs[0]:
        for b in runs[1]:
            if s.check(a['pc'], b['pc']) != z3.sat:
                continue
            n += 1
            if a['kind'] != b['kind']:
                ob = z3.BoolVal(False)
            elif a['kind'] == 'exc':
                ob = z3.BoolVal(True)
            else:
                ob = seg_equal(SymBytes.of(a['val'][0]).segs, SymBytes.of(b['val'][0]).segs)
            r = s.check(a['pc'], b['pc'], z3.Not(ob))
            res['queries'] += 2
            if r == z3.sat:
                mdl = s.model()
                ra = pl.real_assemble(progA, {}, compress, a['notes']['markers'], mdl)
                rb = pl.real_assemble(progB, {}, compress, b['notes']['markers'], mdl)
                vals = {k: core.concrete(v, mdl) for k, v in a['notes']['markers'].items()}
                if ra[0] == rb[0] and (ra[0] == 'exc' or ra[1] == rb[1]):
                    res.inconc('clash: counterexample %r did not reproduce' % vals)
                else:
                    path = common.write_replay('C11', 'clash_%s' % compress, dict(kind='program', property='C11', source=asmshim_sub(progA, vals), compress=compress,
                                                                               what='constant sharing its name with a label: program differs from the literal form', a=str(ra[:2])[:200], b=str(rb[:2])[:200]))
                    res['violations'].append(dict(harness='equiv-clash', kind='const-vs-literal', compress=compress, values=vals, a=str(ra[:2])[:160], b=str(rb[:2])[:160], replay=path))
                    res.oblig(False)
            else:
                res.oblig(True if r == z3.unsat else None, 'unknown clash')
    if n == 0:
        res['vacuity'].append('clash: no feasible pair')
    res['samples'].append(dict(a=progA.split('\n'), b=progB.split('\n'), compress=compress, feasible_pairs=n))
    res['functions'] = prof.names()
    return res


def asmshim_sub(text, vals):
    from symx import asmshim
    return asmshim.MARK.sub(lambda m: str(vals.get(m.group(1), m.group(0))), text)

"""Shared harness machinery: task results, parallel map, evidence, known findings."""
import concurrent.futures
import importlib
import json
import multiprocessing
import os
import sys
import time
import traceback

VERIF = os.path.dirname(os.path.dirname(os.path.abspath(__file__)))
REPO = os.environ.get('VERIF_REPO', '/repo')
OUT = os.environ.get('VERIF_OUT', os.path.join(VERIF, 'out'))
EVIDENCE = os.environ.get('VERIF_EVIDENCE_DIR', os.path.join(VERIF, 'evidence'))

STUBS_ASM = [
    'asm.c_uint32/c_int32(x).value = x mod 2^32 / signed reinterpretation (ctypes contract)',
    'asm.struct.pack(fmt,v) for [<>=!][bBhHiIlLqQ]: n-byte two\'s complement, struct.error outside the format range',
    'asm.bytearray/bytes/len: concatenation and length of symbolic byte strings',
    'asm.type: a symbolic integer reports the module\'s int',
    'asm.REGISTERS: the real dict; a symbolic key forks on membership in its integer keys and maps through its values',
    'asm.int / asm.eval: a stand-alone @NAME@ token parses / evaluates to the symbolic integer NAME (CPython literal parsing is not repository code)',
    'str(symbolic int) is a token that asm.int/asm.eval map back to the same value (eval(str(n)) == n)',
    'asm.log_conversion/log_constant/log: no-ops',
    'module-level tuples / lists of integers: the real sequence; a symbolic index forks on being in range (negative indices included) and selects among the real entries; a bytearray kept in a function default is replaced by the engine\'s byte array',
]


class TaskResult(dict):
    """JSON-able result of one harness task"""

    def __init__(self, name):
        super().__init__(name=name, paths=0, decisions=0, queries=0, solver_time=0.0,
                         obligations=0, discharged=0, inconclusive=0, inconclusive_why=[],
                         validated=0, violations=[], known=[], samples=[], functions=[],
                         wall=0.0, notes=[], vacuity=[], error=None)

    def absorb_stats(self, st):
        self['paths'] += st.paths
        self['decisions'] += st.decisions
        self['queries'] += st.queries
        self['solver_time'] += st.solver_time

    def oblig(self, ok, why=None):
        self['obligations'] += 1
        if ok is True:
            self['discharged'] += 1
        elif ok is None:
            self['inconclusive'] += 1
            if why and len(self['inconclusive_why']) < 20:
                self['inconclusive_why'].append(why)

    def inconc(self, why):
        self['inconclusive'] += 1
        if len(self['inconclusive_why']) < 20:
            self['inconclusive_why'].append(why)


class FuncProfile:
    """records which functions of REPO are entered"""

    def __init__(self):
        self.seen = set()
        self._prefix = REPO.rstrip('/') + '/'

    def _cb(self, frame, event, arg):
        if event == 'call':
            co = frame.f_code
            if co.co_filename.startswith(self._prefix):
                self.seen.add(os.path.basename(co.co_filename)[:-3] + '.' + getattr(co, 'co_qualname', co.co_name))

    def __enter__(self):
        if not os.environ.get('VERIF_NOPROF'):
            sys.setprofile(self._cb)
        return self

    def __exit__(self, *a):
        if not os.environ.get('VERIF_NOPROF'):
            sys.setprofile(None)

    def names(self):
        return sorted(n for n in self.seen if '<' not in n.split('.')[-1] or 'inner' in n)


def _run_task(spec):
    modname, funcname, args = spec
    t0 = time.time()
    try:
        mod = importlib.import_module(modname)
        res = getattr(mod, funcname)(*args)
    except BaseException as e:  # harness error, never a pass
        res = TaskResult('%s.%s%r' % (modname, funcname, tuple(args)[:2]))
        res['error'] = '%s: %s\n%s' % (type(e).__name__, e, traceback.format_exc()[-1500:])
    res['wall'] = time.time() - t0
    return dict(res)


def pmap(specs, workers=None):
    """run [(module, function, args)] in worker processes; returns list of dict"""
    workers = workers or min(len(specs), int(os.environ.get('VERIF_WORKERS', '16')))
    if workers <= 1 or len(specs) <= 1:
        return [_run_task(s) for s in specs]
    ctx = multiprocessing.get_context('spawn')
    out = [None] * len(specs)
    with concurrent.futures.ProcessPoolExecutor(max_workers=workers, mp_context=ctx) as ex:
        futs = {ex.submit(_run_task, s): i for i, s in enumerate(specs)}
        for f in concurrent.futures.as_completed(futs):
            i = futs[f]
            try:
                out[i] = f.result()
            except BaseException as e:
                r = TaskResult(str(specs[i][:2]))
                r['error'] = 'worker died: %r' % (e,)
                out[i] = dict(r)
    return out


# ---------------------------------------------------------------------------
# known findings
# ---------------------------------------------------------------------------
def load_known(prop):
    path = os.path.join(VERIF, 'known_findings.json')
    try:
        with open(path) as f:
            data = json.load(f)
    except FileNotFoundError:
        return []
    return [e for e in data.get('findings', []) if prop in e.get('properties', [e.get('property')])]


def match_known(known, site):
    """site: dict describing a violation; a finding matches when every key of its
    'match' dict equals the site's value"""
    for k in known:
        m = k.get('match', {})
        if all(site.get(a) == b for a, b in m.items()):
            return k
    return None


# ---------------------------------------------------------------------------
# report / evidence
# ---------------------------------------------------------------------------
def write_replay(prop, name, payload):
    d = os.path.join(OUT, 'replays', prop)
    os.makedirs(d, exist_ok=True)
    safe = ''.join(c if c.isalnum() or c in '._-' else '_' for c in name)[:120]
    p = os.path.join(d, safe + '.json')
    with open(p, 'w') as f:
        json.dump(payload, f, indent=1, default=str)
    return p


def finish(prop, tier, seed, results, t0, *, bounds, stubs, assumptions, outside, extra=None,
           level='model_checking'):
    """aggregate task results, write evidence, print verdict lines, return exit code"""
    agg = dict(paths=0, decisions=0, queries=0, solver_time=0.0, obligations=0, discharged=0,
               inconclusive=0, validated=0)
    violations, known, errors, samples, funcs, why, vac, notes = [], [], [], [], set(), [], [], []
    for r in results:
        for k in agg:
            key = {'paths': 'paths'}.get(k, k)
            agg[k] += r.get(key, 0)
        violations += r.get('violations', [])
        known += r.get('known', [])
        if r.get('error'):
            errors.append('%s: %s' % (r.get('name'), r['error']))
        samples += r.get('samples', [])[:2]
        funcs.update(r.get('functions', []))
        why += r.get('inconclusive_why', [])
        notes += [n_ for n_ in r.get('notes', []) if 'paths explored' in n_ or 'skipped' in n_]
        vac += r.get('vacuity', [])
    ss = dict(queries=0, agree=0, disagree=[])
    for r in results:
        x = r.get('second_solver')
        if x:
            ss['queries'] += x['queries']
            ss['agree'] += x['agree']
            ss['disagree'] += x['disagree']
    if ss['queries']:
        extra = dict(extra or {}, second_solver=dict(solver='cvc5 (python wheel, in-process, from Solver.to_smt2())', **ss))
    seen = set()
    for k in known:
        key = (k.get('id'), k.get('what'))
        if key in seen:
            continue
        seen.add(key)
        print('KNOWN-FINDING: property=%s %s' % (prop, k.get('what')))
    vio_lines = []
    for v in violations:
        vio_lines.append('VIOLATION property=%s replay=%s' % (prop, v.get('replay')))
    for line in vio_lines[:50]:
        print(line)
    for v in violations[:10]:
        print('  detail:', json.dumps({k: v[k] for k in v if k != 'replay'}, default=str)[:600])
    status = 0
    if violations:
        status = 1
    elif errors or agg['inconclusive'] or vac or agg['paths'] == 0:
        status = 2
    if errors:
        for e in errors[:10]:
            print('HARNESS-ERROR', e[:2000])
    if agg['inconclusive']:
        print('INCONCLUSIVE obligations/paths: %d' % agg['inconclusive'])
        for w in why[:10]:
            print('  why:', w)
    for v in vac[:10]:
        print('VACUITY', v)
    cov = dict(
        states=agg['paths'], transitions=max(agg['decisions'], 0),
        traces_validated_against_impl=agg['validated'],
        samples=samples[:12] or ['(none)'],
        obligations=agg['obligations'], discharged=agg['discharged'],
        inconclusive=agg['inconclusive'], queries=agg['queries'],
        solver_time_s=round(agg['solver_time'], 3),
        functions_encoded=sorted(funcs), bounds=bounds, outside_claim=outside, stubs=stubs,
        tasks=len(results), known_findings_reported=len(seen),
        known_findings=[dict(id=k.get('id'), instance=k.get('instance')) for k in known][:10], partially_explored_or_skipped_generated_programs=notes[:40],
        exhaustive=False,
        explanation='bounded symbolic execution of the real functions (symx proxies over z3 QF_BV); '
                    'states = feasible paths, transitions = symbolic branch decisions',
    )
    if extra:
        cov.update(extra)
    ev = dict(property_id=prop, tier=tier, seed=seed, level=level, coverage=cov,
              assumptions=assumptions, wall_s=round(time.time() - t0, 2), violations=len(violations),
              status={0: 'held', 1: 'violation', 2: 'inconclusive-or-harness-error'}[status])
    os.makedirs(EVIDENCE, exist_ok=True)
    with open(os.path.join(EVIDENCE, prop + '.json'), 'w') as f:
        json.dump(ev, f, indent=1, default=str)
    if os.environ.get('VERIF_SLOW'):
        for r in sorted(results, key=lambda r: -r.get('wall', 0))[:6]:
            print('  slow: %-50s %.1fs solver %.1fs paths %d' % (r.get('name'), r.get('wall', 0), r.get('solver_time', 0), r.get('paths', 0)))
    print('%s tier=%s: %d paths, %d/%d obligations discharged, %d queries, solver %.1fs, %d replays validated, wall %.1fs -> %s'
          % (prop, tier, agg['paths'], agg['discharged'], agg['obligations'], agg['queries'],
             agg['solver_time'], agg['validated'], time.time() - t0, ev['status']))
    return status

"""C15: one faulty line planted in an otherwise valid program; every refusing path must raise
asm.AssemblerError carrying the file and 1-based line number of that line."""
import posixpath

import z3

from symx import core, asmshim, vfs as vfsmod
from symx.core import SymInt, SymBool, And, Or, Not
from symx.asmshim import Markers
from . import common
from .common import TaskResult

BASE = ['START = 4', 'main:', 'addi x1, x2, K1', 'li x5, K2', 'beq x1 x5 main', 'call main',
        'bytes 1 2 3', 'align 4', 'end:', 'dw end']

# (id, faulty line, symbolic value spec or None, assumption on V making the line faulty)
#   value spec: ('const'|'marker', bits)
FAULTS = [
    ('imm_addi', 'addi x3, x4, V', ('const', 40), lambda v: Or(v < -2048, v > 2047)),
    ('imm_addi_lit', 'addi x3, x4, @V@', ('marker', 40), lambda v: Or(v < -2048, v > 2047)),
    ('imm_sw', 'sw x3, V(x4)', ('const', 40), lambda v: Or(v < -2048, v > 2047)),
    ('imm_beq', 'beq x3, x4, @V@', ('marker', 40), lambda v: Or(v < -4096, v > 4094, v % 2 != 0)),
    ('imm_jal', 'jal x1, @V@', ('marker', 40), lambda v: Or(v < -1048576, v > 1048574, v % 2 != 0)),
    ('imm_lui', 'lui x3, V', ('const', 40), lambda v: Or(v < -524288, v > 1048575)),
    ('imm_jalr', 'jalr x1, x3, V', ('const', 40), lambda v: Or(v < -2048, v > 2047, v % 2 != 0)),
    ('imm_caddi', 'c.addi x3, V', ('const', 40), lambda v: Or(v < -32, v > 31, v == 0)),
    ('imm_clw', 'c.lw x8, V(x9)', ('const', 40), lambda v: Or(v < 0, v > 124, v % 4 != 0)),
    ('imm_cj', 'c.j V', ('const', 40), lambda v: Or(v < -2048, v > 2046, v % 2 != 0)),
    ('imm_cbeqz', 'c.beqz x8, V', ('const', 40), lambda v: Or(v < -256, v > 254, v % 2 != 0)),
    ('shamt_alias', 'slli x3, x3, V', ('const', 12), lambda v: Or(v < 0, v > 31)),
    ('shamt_lit', 'srai x8, x8, @V@', ('marker', 12), lambda v: Or(v < 0, v > 31)),
    ('reg_alias', 'add x3, x3, V', ('const', 12), lambda v: Or(v < 0, v > 31)),
    ('reg_alias_rd', 'addi V, x0, 1', ('const', 12), lambda v: Or(v < 0, v > 31)),
    ('reg_lit', 'sub x8, x8, @V@', ('marker', 12), lambda v: Or(v < 0, v > 31)),
    ('reg_creg', 'c.sub x8, V', ('const', 12), lambda v: Or(v < 8, v > 15)),
    ('reg_name', 'add x1, x1, bogus', None, None),
    ('reg_name_rd', 'addi bogus, x1, 1', None, None),
    ('reg_name_lw', 'lw x1, 4(bogus)', None, None),
    ('reg_name_li', 'li bogus, 5', None, None),
    ('reg_name_mv', 'mv x1, bogus', None, None),
    ('fence_arg', 'fence @V@ 3', ('marker', 12), lambda v: Or(v < 0, v > 15)),
    ('aq_arg', 'amoadd.w x1 x2 x3 @V@ 0', ('marker', 12), lambda v: Or(v < 0, v > 1)),
    ('aq_float', 'amoswap.w x1 x2 x3 1.5 0', None, None),
    ('aq_word', 'lr.w x1 x2 aq rl', None, None),
    ('fence_word', 'fence iorw rw', None, None),
    ('db_range', 'db V', ('const', 40), lambda v: Or(v < -128, v > 255)),
    ('dh_range_lit', 'dh @V@', ('marker', 40), lambda v: Or(v < -32768, v > 65535)),
    ('pack_range', 'pack <h V', ('const', 40), lambda v: Or(v < -32768, v > 32767)),
    ('bytes_range', 'bytes 1 @V@ 3', ('marker', 40), lambda v: Or(v < -128, v > 255)),
    ('ints_range', 'ints @V@', ('marker', 40), lambda v: Or(v < -(1 << 31), v >= (1 << 32))),
    ('li_undef', 'li x6, nowhere', None, None),
    ('j_undef', 'j nowhere', None, None),
    ('beq_undef', 'beq x1, x2, nowhere', None, None),
    ('call_undef', 'call nowhere', None, None),
    ('tail_undef', 'tail nowhere', None, None),
    ('dw_undef', 'dw nowhere', None, None),
    ('lo_undef', 'addi x1, x0, %lo(nowhere)', None, None),
    ('hi_undef', 'lui x1, %hi(nowhere)', None, None),
    ('pos_undef', 'dw %position(nowhere, 4)', None, None),
    ('off_undef', 'addi x1, x1, %offset(nowhere)', None, None),
    ('const_undef', 'addi x1, x0, UNDEF', None, None),
    ('const_undef_def', 'K9 = UNDEF + 1', None, None),
    ('expr_trailing_op', 'addi x1, x0, 3 +', None, None),
    ('expr_paren', 'addi x1, x0, (3', None, None),
    ('expr_const_bad', 'K9 = 1 +', None, None),
    ('expr_float', 'addi x1, x0, 1.5', None, None),
    ('expr_float_div', 'K9 = 3 / 2', None, None),
    ('expr_str', "K9 = 'ab'", None, None),
    ('expr_backslash', "K9 = '\\'", None, None),
    ('expr_call', 'addi x1, x0, abs(3)', None, None),
    ('expr_div0', 'K9 = 1 // 0', None, None),
    ('expr_negshift', 'addi x1, x0, 1 << -1', None, None),
    ('expr_negshift_const', 'K9 = 4 >> -2', None, None),
    ('expr_attr', 'K9 = (1).foo', None, None),
    ('expr_key', 'dw {}[1]', None, None),
    ('expr_huge', 'K9 = 2 ** -1', None, None),
    ('expr_negshift_li', 'li x5, 0x1000 >> -3', None, None),
    ('bytes_word', 'bytes foo', None, None),
    ('shorts_float', 'shorts 1.5', None, None),
    ('db_float', 'db 2.5', None, None),
    ('pack_word', 'pack <I foo bar', None, None),
    ('align_word', 'align foo', None, None),
    ('align_zero', 'align 0', None, None),
    ('error_directive', 'error this board is not supported', None, None),
    ('error_bare', 'error', None, None),
    # relocation / position modifiers with operands missing or left over (malformed expressions)
    ('mod_hi_bare', 'addi x1, x0, %hi', None, None),
    ('mod_hi_open', 'K9 = %hi(', None, None),
    ('mod_lo_li', 'li x5, %lo', None, None),
    ('mod_lo_nested', 'lui x1, %hi(%lo(', None, None),
    ('mod_pos_bare', 'dw %position', None, None),
    ('mod_pos_open', 'li x5, %position(main', None, None),
    ('mod_off_two', 'li x5, %offset main end', None, None),
    ('mod_off_paren', 'addi x1, x1, %offset(main end)', None, None),
    ('mod_off_open', 'K9 = %offset(', None, None),
    ('mod_off_pack', 'pack <I %offset', None, None),
    ('include_bytes_missing', 'include_bytes missing.bin', None, None),
    ('include_missing', 'include missing.asm', None, None),
    ('shadow_register', 'x5 = 3', None, None),
    ('const_number', '12 = 3', None, None),
    ('garbage', 'frobnicate x1, x2', None, None),
    # the same pseudo-instruction text twice: the first is fine, the second is out of reach
    ('dup_beqz_far', 'DUP:beqz x8, main', None, None),
    ('dup_bgt_far', 'DUP:bgt x5, x6, main', None, None),
    ('dup_j_odd', 'DUPODD:j main', None, None),
]
FAULT_BY_ID = {f[0]: f for f in FAULTS}


DATA_HEADS = ('db', 'dh', 'dw', 'dd', 'pack', 'bytes', 'shorts', 'ints', 'longs', 'longlongs', 'include_bytes', 'align')


def build(fault_line, pos, where):
    """returns (files, main argument, expected file, expected line number)"""
    if fault_line.startswith(('DUP:', 'DUPODD:')):
        ins = fault_line.split(':', 1)[1]
        gap = ['include_bytes big.bin'] if fault_line.startswith('DUP:') else ['db 1']
        lines = BASE[:2] + [ins] + BASE[2:] + gap + [ins, 'addi x0, x0, 0']
        big = b'\x00' * 5000
        if where in ('included', 'after-include', 'file'):
            inc = ['# part', 'sub:', 'addi x7, x7, 1'] + gap + [ins]
            main = BASE[:2] + [ins] + BASE[2:] + ['include inc/part.asm']
            return ({'/proj/src/main.asm': '\n'.join(main), '/proj/src/inc/part.asm': '\n'.join(inc), '/proj/src/inc/big.bin': big},
                    '/proj/src/main.asm', '/proj/src/inc/part.asm', len(inc))
        return {'/proj/run/big.bin': big}, '\n'.join(lines), '<string>', len(lines) - 1
    if fault_line.split()[0] in DATA_HEADS:
        # a data item of odd size in front of code would misalign (and so break) the following
        # jump on its own: keep data faults next to the data lines / before the align
        pos = {0: 6, 10: 10}.get(pos, 7)
        if where == 'included':
            inc = ['# a part', 'part:', 'addi x7, x7, 1'][:1 + pos % 3] + [fault_line] + ['align 4']
            main = BASE[:5] + ['include inc/part.asm'] + BASE[5:]
            return ({'/proj/src/main.asm': '\n'.join(main), '/proj/src/inc/part.asm': '\n'.join(inc)},
                    '/proj/src/main.asm', '/proj/src/inc/part.asm', 2 + pos % 3)
    if where == 'blanks':
        # blank lines, whitespace-only lines, comment lines and indentation around everything:
        # line numbers are those of the physical lines
        lines = BASE[:pos] + [fault_line] + BASE[pos:]
        phys, number = [], None
        for i, l in enumerate(lines):
            phys += ['', '   # note %d' % i, '\t'][:(i % 3) + 1]
            if i == pos:
                number = len(phys) + 1
            phys.append(('    ' if i % 2 else '') + l)
        return {}, '\n'.join(phys), '<string>', number
    if where == 'blanks-file':
        # the same in a file that begins (and ends) with blank lines
        lines = BASE[:pos] + [fault_line] + BASE[pos:]
        phys, number = ['', '   ', ''], None
        for i, l in enumerate(lines):
            phys += ['', '   # note %d' % i, '\t'][:(i % 3) + 1]
            if i == pos:
                number = len(phys) + 1
            phys.append(('    ' if i % 2 else '') + l)
        phys += ['', '']
        return {'/proj/src/main.asm': '\n'.join(phys) + '\n'}, '/proj/src/main.asm', '/proj/src/main.asm', number
    if where == 'blanks-included':
        # (a data item of odd size would misalign the code behind it: realign straight away)
        after = ['align 4'] if fault_line.split()[0] in DATA_HEADS else ['addi x7, x7, 2']
        inc = ['', '', '# a part', 'part:', '', 'addi x7, x7, 1'][:3 + pos % 4] + [fault_line] + after + ['', '']
        main = ['', ''] + BASE[:5] + ['include inc/part.asm'] + BASE[5:]
        return ({'/proj/src/main.asm': '\n'.join(main), '/proj/src/inc/part.asm': '\n'.join(inc) + '\n'},
                '/proj/src/main.asm', '/proj/src/inc/part.asm', 4 + pos % 4)
    if where == 'text':
        lines = BASE[:pos] + [fault_line] + BASE[pos:]
        return {}, '\n'.join(lines), '<string>', pos + 1
    if where == 'file':
        lines = BASE[:pos] + [fault_line] + BASE[pos:]
        return {'/proj/src/main.asm': '\n'.join(lines)}, '/proj/src/main.asm', '/proj/src/main.asm', pos + 1
    if where == 'after-include':
        # a valid file is included earlier in the same file: the error must still name the parent
        ok_inc = ['# helper', 'helper:', 'addi x7, x7, 1']
        pos = max(pos, 4)
        main = BASE[:3] + ['include inc/ok.asm'] + BASE[3:pos] + [fault_line] + BASE[pos:]
        return ({'/proj/src/main.asm': '\n'.join(main), '/proj/src/inc/ok.asm': '\n'.join(ok_inc)},
                '/proj/src/main.asm', '/proj/src/main.asm', pos + 2)
    # included: the fault lives in inc/part.asm, included from the middle of main
    inc = ['# a part', 'part:', 'addi x7, x7, 1'][:1 + pos % 3] + [fault_line] + ['addi x7, x7, 2']
    main = BASE[:5] + ['include inc/part.asm'] + BASE[5:]
    return ({'/proj/src/main.asm': '\n'.join(main), '/proj/src/inc/part.asm': '\n'.join(inc)},
            '/proj/src/main.asm', '/proj/src/inc/part.asm', 2 + pos % 3)


def error_task(fid, pos, where, compress):
    fid, fline, vspec, faulty = FAULT_BY_ID[fid]
    tag = 'error:%s:%d:%s:%s' % (fid, pos, where, 'c' if compress else 'n')
    res = TaskResult(tag)
    files, main, exp_file, exp_line = build(fline, pos, where)
    asm = asmshim.load_asm_shimmed()
    real = asmshim.load_asm_pristine()
    prof = common.FuncProfile()
    x = core.Explorer(max_paths=400)
    n_exc = 0

    def fn(p):
        v = vfsmod.VFS('/proj/run')
        for pth, text in files.items():
            (v.add_bytes if isinstance(text, bytes) else v.add_text)(pth, text)
        v.add_dir('/proj/run')
        v.install(asm)
        consts, markers = {}, {}
        # the other operands: symbolic but legal, so that every pass ordering is explored
        k1 = p.int('K1', lo=-2048, hi=2047)
        k2 = p.int('K2', 34)
        consts.update(K1=k1, K2=k2)
        if vspec:
            V = p.int('V', vspec[1])
            p.assume(faulty(V))
            (consts if vspec[0] == 'const' else markers)['V'] = V
        Markers.table = dict(markers)
        p.notes.update(constants=dict(consts), markers=dict(markers))
        with prof:
            return asm.assemble(main, constants=consts, labels={}, compress=compress, include_dirs=[])

    for p, kind, val in x.run(fn):
        if kind == 'limit':
            res.inconc('%s: engine limit %s' % (tag, val))
            continue
        model = p.witness()
        inp = {k: core.concrete(v, model) for k, v in {**p.notes['constants'], **p.notes['markers']}.items()}
        got = _real(real, files, main, inp, p.notes, compress)
        if kind == 'ok':
            sym = ('ok',)
        else:
            ln = getattr(val, 'line', None)
            sym = ('exc', type(val).__name__, getattr(ln, 'file', None), getattr(ln, 'number', None))
        if sym[0] != got[0] or (sym[0] == 'exc' and sym[1:] != got[1:4]):
            res.inconc('%s: witness replay mismatch: symbolic %r real %r' % (tag, sym, got[:4]))
            continue
        res['validated'] += 1
        if kind == 'ok':
            continue        # not refused: no obligation (C06 / C10 decide whether it should be)
        n_exc += 1
        ok = sym[1] == 'AssemblerError' and sym[2] == exp_file and sym[3] == exp_line
        if len(res['samples']) < 1:
            res['samples'].append(dict(fault=fline, at=[exp_file, exp_line], compress=compress, inputs=inp, raised=list(got[1:4])))
        if ok:
            res.oblig(True)
            continue
        site = dict(harness='error', fault=fid, exc=sym[1])
        kn = common.match_known(common.load_known('C15'), site)
        if kn:
            res['known'].append(dict(id=kn.get('id'), what=kn.get('what')))
            res.oblig(False)
            continue
        what = 'raised %s at %r line %r; the faulty line is %r line %d' % (sym[1], sym[2], sym[3], exp_file, exp_line)
        path = common.write_replay('C15', tag, dict(kind='error', property='C15', files=files, main=main, inputs=inp, compress=compress,
                                                    fault=fline, expected=[exp_file, exp_line], real=list(got[1:5]), what=what))
        res['violations'].append(dict(site, where=where, pos=pos, compress=compress, fault_line=fline, inputs=inp,
                                      what=what, message=got[4] if len(got) > 4 else None, replay=path))
        res.oblig(False)
    if n_exc == 0:
        res['notes'].append('%s: never refused (no obligation)' % tag)
    res.absorb_stats(x.stats)
    res['functions'] = prof.names()
    return res


def _real(real, files, main, inp, notes, compress):
    import os
    import shutil
    import tempfile
    root = tempfile.mkdtemp(prefix='bbverif_')
    old = os.getcwd()
    sub = lambda text: asmshim.MARK.sub(lambda m: str(inp[m.group(1)]) if m.group(1) in inp else m.group(0), text)
    try:
        os.makedirs(root + '/proj/run', exist_ok=True)
        for pth, text in files.items():
            os.makedirs(os.path.dirname(root + pth), exist_ok=True)
            if isinstance(text, bytes):
                with open(root + pth, 'wb') as f:
                    f.write(text)
                continue
            with open(root + pth, 'w') as f:
                f.write(sub(text))
        os.chdir(root + '/proj/run')
        consts = {k: inp[k] for k in notes['constants']}
        arg = root + main if (files and main.startswith('/')) else sub(main)
        try:
            real.assemble(arg, constants=consts, labels={}, compress=compress, include_dirs=[])
            return ('ok',)
        except Exception as e:
            ln = getattr(e, 'line', None)
            lf = getattr(ln, 'file', None)
            if isinstance(lf, str) and lf.startswith(root):
                lf = lf[len(root):]
            return ('exc', type(e).__name__, lf, getattr(ln, 'number', None), str(getattr(e, 'message', e))[:200])
    finally:
        os.chdir(old)
        shutil.rmtree(root, ignore_errors=True)

"""C18 / C19: the real dfu.cli_main() against a DfuSe device model (oracle 4.5) with symbolic
timing (busy polls, poll timeouts), symbolic initial error state, symbolic flash-size variant,
opaque firmware content and symbolic error injection."""
import sys
import types

import z3

from symx import core, asmshim
from symx.core import SymInt, SymBool, SymFrac, And, Or, Not
from . import common
from .common import TaskResult

BASE = 0x08000000
PAGE = 1024
VARIANTS = [('B', 128), ('8', 64), ('6', 32), ('4', 16)]
IDLE, DNBUSY, DNLOAD_IDLE, ERROR = 2, 4, 5, 10


class USBError(Exception):
    pass


class SymKeyDict(dict):
    """a dict whose lookup with a symbolic integer key forks over its keys"""

    def __getitem__(self, k):
        if isinstance(k, SymInt):
            # the values are message texts: if the key is certainly one of the keys no fork is
            # needed, the text is a placeholder; otherwise fork over the keys (KeyError possible)
            p = core._path()
            member = Or(*[k == kk for kk in dict.keys(self)])
            if p.sat(Not(member))[0] == 'unsat':
                return '<description of status/state %s>' % (k,)
            for kk in dict.keys(self):
                if k == kk:
                    return dict.__getitem__(self, kk)
            raise KeyError(k)
        return dict.__getitem__(self, k)


class FW:
    """firmware bytes: opaque file content [a, b) and literal zeros, concrete length"""

    def __init__(self, segs):
        self.segs = [s for s in segs if s[-1] > 0 or s[0] == 'lit']

    path = None          # the Path (or ConcreteP) of the current run
    tz = 0               # trailing zero bytes of the (opaque) file content, once the code asked
    tbyte = 0            # the byte value whose trailing run was asked for (rstrip of another single byte value)

    @staticmethod
    def file(n):
        return FW([('file', 0, n)])

    def rstrip(self, chars=None):
        """the only content-dependent question modelled: how many trailing zero bytes does the
        opaque file have?  A symbolic count, restricted (stated bound) to the classes that
        matter for paging: none, one, up to / across the last page boundary, a whole page, all."""
        if not isinstance(chars, bytes) or len(chars) != 1 or self.segs != [('file', 0, len(self))] or (FW.tz and FW.tbyte != chars[0]):
            raise core.EngineLimit('bytes.rstrip on firmware other than rstrip(<one byte value>) of the whole file')
        L = len(self)
        p = FW.path
        FW.tbyte = chars[0]
        t = p.int('trailing_zero_bytes' if chars == b'\x00' else 'trailing_%02x_bytes' % chars[0], lo=0, hi=L)
        cands = sorted(c for c in {0, 1, L % PAGE, L % PAGE + 1, PAGE, PAGE + 1, L} if 0 <= c <= L)
        p.assume(Or(*[t == c for c in cands]))
        for c in cands:
            if t == c:
                FW.tz = c
                return FW([('file', 0, L - c)])
        raise core.EngineLimit('unreachable')

    def __len__(self):
        return sum(s[-1] if s[0] != 'lit' else len(s[1]) for s in self.segs)

    facts = {}           # (a, n, k, 'all'|'some') -> symbolic 0/1 about the opaque file content [a, a+n)

    @staticmethod
    def fact(a, n, k, which):
        """symbolic truth of 'every byte of file[a, a+n) equals k' / 'some byte of file[a, a+n) equals k'"""
        key = (a, n, k, which)
        if key not in FW.facts:
            v = FW.path.int('file_%d_%d_%s_bytes_equal_%d' % (a, n, which, k), lo=0, hi=1)
            FW.facts[key] = v
            other = FW.facts.get((a, n, k, 'some' if which == 'all' else 'all'))
            if other is not None and n > 0:
                al, so = (v, other) if which == 'all' else (other, v)
                FW.path.assume(Or(al == 0, so == 1))          # all -> some
            # at most one value can fill the whole stretch
            if which == 'all':
                for (a2, n2, k2, w2), v2 in list(FW.facts.items()):
                    if (a2, n2, w2) == (a, n, 'all') and k2 != k and n > 0:
                        FW.path.assume(Or(v == 0, v2 == 0))
        return FW.facts[key] == 1

    def __iter__(self):
        """the content is opaque: iteration yields, per stretch of file content, two stand-in elements built so
        that all(pred(b) for b in chunk) and any(pred(b) for b in chunk) - with pred one of bool(b), b == k,
        b != k - get the truth value they have for the real bytes (see FWByte)"""
        for s in self.segs:
            if s[0] == 'lit':
                yield from s[1]
            elif s[0] == 'zeros':
                if s[-1]:
                    yield 0
            elif s[2] > 0:
                yield FWByte(s[1], s[2], 1)
                yield FWByte(s[1], s[2], 2)

    def __eq__(self, o):
        if isinstance(o, (bytes, bytearray)) and len(o) == len(self) and len(set(o)) <= 1:
            if len(o) == 0:
                return True
            k = o[0]
            conds = []
            for s in self.segs:
                if s[0] == 'lit':
                    if any(b != k for b in s[1]):
                        return False
                elif s[0] == 'zeros':
                    if k != 0 and s[-1]:
                        return False
                elif s[2] > 0:
                    conds.append(FW.fact(s[1], s[2], k, 'all'))
            return bool(And(*conds)) if conds else True
        if isinstance(o, (bytes, bytearray)) and len(o) != len(self):
            return False
        if isinstance(o, FW):
            return self.segs == o.segs or _fw_unknown('comparison of two firmware chunks')
        raise core.EngineLimit('comparison of opaque firmware content with non-constant bytes')

    def __ne__(self, o):
        return not self.__eq__(o)

    __hash__ = object.__hash__

    def count(self, sub, start=None, end=None):
        """how many bytes equal the single byte ``sub``: concrete for literal parts, one symbolic integer per stretch
        of opaque content, tied to the all / some facts of that stretch"""
        if isinstance(sub, int):
            k = sub
        elif isinstance(sub, (bytes, bytearray)) and len(sub) == 1:
            k = sub[0]
        else:
            raise core.EngineLimit('bytes.count of a multi-byte pattern on opaque firmware content')
        part = self[slice(start, end)] if (start is not None or end is not None) else self
        total = 0
        for s in part.segs:
            if s[0] == 'lit':
                total = total + s[1].count(k)
            elif s[0] == 'zeros':
                total = total + (s[-1] if k == 0 else 0)
            elif s[2] > 0:
                a, n = s[1], s[2]
                key = (a, n, k, 'count')
                if key not in FW.facts:
                    c = FW.path.int('file_%d_%d_count_of_%d' % (a, n, k), lo=0, hi=n)
                    FW.facts[key] = c
                    al, so = FW.fact(a, n, k, 'all'), FW.fact(a, n, k, 'some')
                    FW.path.assume(Or(And(al, c == n), And(Not(al), c < n)))
                    FW.path.assume(Or(And(so, c >= 1), And(Not(so), c == 0)))
                total = total + FW.facts[key]
        return total

    def __add__(self, o):
        if isinstance(o, (bytes, bytearray)):
            if any(o):
                return FW(self.segs + [('lit', bytes(o))])
            return FW(self.segs + [('zeros', len(o))])
        if isinstance(o, FW):
            return FW(self.segs + o.segs)
        return NotImplemented

    __iadd__ = __add__

    def __getitem__(self, sl):
        if not isinstance(sl, slice) or sl.step not in (None, 1):
            raise core.EngineLimit('firmware indexed other than by a slice')
        a, b, _ = sl.indices(len(self))
        out, pos = [], 0
        for s in self.segs:
            n = len(s[1]) if s[0] == 'lit' else s[-1]
            lo, hi = max(a, pos), min(b, pos + n)
            if lo < hi:
                if s[0] == 'file':
                    out.append(('file', s[1] + lo - pos, hi - lo))
                elif s[0] == 'zeros':
                    out.append(('zeros', hi - lo))
                else:
                    out.append(('lit', s[1][lo - pos:hi - pos]))
            pos += n
        return FW(out)

    def canon(self):
        """normal form: merged runs"""
        out = []
        for s in self.segs:
            if s[0] == 'lit':
                s = ('zeros', len(s[1])) if not any(s[1]) else s
            if out and out[-1][0] == s[0] == 'zeros':
                out[-1] = ('zeros', out[-1][1] + s[1])
            elif out and out[-1][0] == s[0] == 'file' and out[-1][1] + out[-1][2] == s[1]:
                out[-1] = ('file', out[-1][1], out[-1][2] + s[2])
            else:
                out.append(s)
        return out


class SymLenFW:
    """firmware of symbolic length (only its length may be asked): oversize check"""

    def __init__(self, n):
        self.n = n


class FWBuf:
    """a mutable byte buffer (bytearray) that may hold opaque firmware content: fixed length, slice assignment"""

    def __init__(self, init):
        self.fw = FW([('zeros', init)]) if isinstance(init, int) else (init if isinstance(init, FW) else FW([('lit', bytes(init))]))

    def __len__(self):
        return len(self.fw)

    def __setitem__(self, sl, value):
        if not isinstance(sl, slice) or sl.step not in (None, 1):
            raise core.EngineLimit('firmware buffer assigned other than by a slice')
        a, b, _ = sl.indices(len(self.fw))
        if isinstance(value, FWBuf):
            value = value.fw
        if isinstance(value, (bytes, bytearray)):
            value = FW([('lit', bytes(value))]) if any(value) else FW([('zeros', len(value))])
        if not isinstance(value, FW):
            raise core.EngineLimit('firmware buffer assigned from %s' % type(value).__name__)
        self.fw = self.fw[:a] + value + self.fw[max(a, b):]       # like bytearray: the buffer may change its length

    def __getitem__(self, sl):
        return self.fw[sl]

    def __iter__(self):
        return iter(self.fw)

    def __iadd__(self, o):
        self.fw = self.fw + (o.fw if isinstance(o, FWBuf) else o)
        return self

    def extend(self, o):
        self.__iadd__(o)

    def snapshot(self):
        return FW(list(self.fw.segs))


def _fw_unknown(what):
    raise core.EngineLimit(what)


class FWByte:
    """stand-in for the bytes of one stretch [a, a+n) of opaque file content inside all(...) / any(...).
    Two of them are yielded per stretch; for a predicate P in {bool(b), b == k, b != k}:
        P(first)  is  'P holds for every byte of the stretch'
        P(second) is  'P holds for some byte of the stretch'
    so that all() = first and second = 'every', any() = first or second = 'some' (every implies some)."""

    def __init__(self, a, n, role):
        self.a, self.n, self.role = a, n, role

    def _every(self, k, negate):
        # every byte == k: all_k ; every byte != k: not some_k
        return FW.fact(self.a, self.n, k, 'all') if not negate else Not(FW.fact(self.a, self.n, k, 'some'))

    def _some(self, k, negate):
        return FW.fact(self.a, self.n, k, 'some') if not negate else Not(FW.fact(self.a, self.n, k, 'all'))

    def _p(self, k, negate):
        return self._every(k, negate) if self.role == 1 else self._some(k, negate)

    def __eq__(self, k):
        if not isinstance(k, int):
            raise core.EngineLimit('firmware byte compared with a non-integer')
        return self._p(k, False)

    def __ne__(self, k):
        if not isinstance(k, int):
            raise core.EngineLimit('firmware byte compared with a non-integer')
        return self._p(k, True)

    def __bool__(self):
        return bool(self._p(0, True))

    __hash__ = object.__hash__

    def __getattr__(self, name):
        if name.startswith('__'):
            raise AttributeError(name)
        raise core.EngineLimit('operation %s on an opaque firmware byte' % name)

    def __index__(self):
        raise core.EngineLimit('an opaque firmware byte used as a number')

    __int__ = __index__
    __lt__ = __le__ = __gt__ = __ge__ = __and__ = __or__ = __xor__ = __add__ = __sub__ = lambda self, o: _fw_unknown('arithmetic / ordering on an opaque firmware byte')


class Response:
    """the bytes a control-IN transfer returned: a sequence of byte values (int | SymInt)"""

    def __init__(self, fields):
        self.fields = tuple(fields)

    def __len__(self):
        return len(self.fields)

    def __iter__(self):
        return iter(self.fields)

    def __getitem__(self, i):
        if isinstance(i, slice):
            return Response(self.fields[i])
        return self.fields[i]

    def tobytes(self):
        return self

    def unpack(self, fmt):
        """struct.unpack of these bytes for a standard-size format (no alignment)"""
        import re as _re
        m = _re.fullmatch(r'([<>=!]?)((?:\d*[xbBhHiIlLqQs])+)', fmt)
        if not m or (m.group(1) == '' and _re.search(r'[hHiIlLqQ]', fmt)):
            raise core.EngineLimit('struct.unpack format %r on a device response' % fmt)
        little = m.group(1) in ('<', '') or (m.group(1) == '=' and __import__('sys').byteorder == 'little')
        sizes = dict(x=1, b=1, B=1, h=2, H=2, i=4, I=4, l=4, L=4, q=8, Q=8)
        out, pos = [], 0
        for cnt, ch in _re.findall(r'(\d*)([xbBhHiIlLqQs])', m.group(2)):
            if ch == 's':
                # a byte string of that many bytes: handed on as a response slice
                n = int(cnt) if cnt else 1
                if pos + n > len(self.fields):
                    raise __import__('struct').error('unpack requires a buffer of %d bytes' % (pos + n))
                out.append(Response(self.fields[pos:pos + n]))
                pos += n
                continue
            for _ in range(int(cnt) if cnt else 1):
                n = sizes[ch]
                if pos + n > len(self.fields):
                    raise __import__('struct').error('unpack requires a buffer of %d bytes' % (pos + n))
                part = self.fields[pos:pos + n]
                pos += n
                if ch == 'x':
                    continue
                v = combine_bytes(part, little)
                if ch in 'bhilq':
                    v = core.ite(v >= (1 << (8 * n - 1)), v - (1 << (8 * n)), v) if isinstance(v, SymInt) else (v - (1 << (8 * n)) if v >= (1 << (8 * n - 1)) else v)
                out.append(v)
        if pos != len(self.fields):
            raise __import__('struct').error('unpack requires a buffer of %d bytes' % pos)
        return tuple(out)


def combine_bytes(part, little):
    part = list(part) if little else list(part)[::-1]
    v = 0
    for k, b in enumerate(part):
        v = v + (b << (8 * k)) if k else b
    return v


class IntType(int):
    """stands in for the name ``int`` inside dfu.py: int.from_bytes accepts a device response"""

    @classmethod
    def from_bytes(cls, data, byteorder='big', *, signed=False):
        if isinstance(data, Response):
            v = combine_bytes(data.fields, byteorder == 'little')
            if signed:
                raise core.EngineLimit('int.from_bytes(signed=True) on a device response')
            return v
        return int.from_bytes(data, byteorder, signed=signed)


class Device:
    """DfuSe device model with monitors"""

    def __init__(self, p, capacity_pages, K, inject, serial):
        self.p = p
        self.capacity = capacity_pages * PAGE
        self.K = K
        self.serial_number = serial
        self.flash = {}            # page index -> ('erased'|FW canon)
        self.erased = set()
        self.monitors = []
        self.requests = []
        self.pending = None        # dict(kind, busy: SymInt|int, polls: int, addr/data)
        self.addr = None
        self.pending_sleep = None  # poll timeout that must be slept before the next request
        self.start_error = p.bool('start_in_error')
        self.state_err = self.start_error
        self.nreq = 0
        self.inject = inject       # None | SymInt index of the operation whose status is an error
        self.inject_status = p.int('err_status', lo=1, hi=15) if inject is not None else None
        self.in_error = False      # model-level (concrete per path after decisions)
        self.sched = 'one'
        self.slow_cnt = p.int('slow_polls', lo=0, hi=K) if K else 0
        self.slow_idx = p.int('slow_op', lo=0, hi=400) if K else None
        self.error_reported = []
        self.nop = 0

    # ---- helpers
    def busy_of(self, op):
        """how many GETSTATUS polls answer dfuDNBUSY for operation number op.
        schedule 'one': one (symbolically chosen) operation is slow; 'all': every operation
        needs the same (symbolic) number of polls"""
        if not self.K:
            return 0
        if self.sched == 'all':
            return self.slow_cnt
        return self.slow_cnt if bool(self.slow_idx == op) else 0

    def _check_slept(self, what):
        if self.pending_sleep is not None:
            self.monitors.append('%s issued without waiting for the requested poll delay' % what)
            self.pending_sleep = None

    def slept(self, arg):
        want = self.pending_sleep
        self.pending_sleep = None
        if want is None:
            return
        if isinstance(want, SymInt) or isinstance(arg, SymFrac):
            ok = isinstance(arg, SymFrac) and arg.den == 1000
            if ok:
                r, _ = self.p.sat(Not(arg.num == want))      # for every poll timeout value
                ok = r == 'unsat'
                if r == 'sat':
                    # the rest of this path is about a delay that is not waited for: its witness shows one
                    self.p.assume(Not(arg.num == want))
        else:
            ok = (arg == want / 1000)
        if not ok:
            self.monitors.append('poll delay not waited: the sleep differs from the delay the device asked for')

    def ctrl_transfer(self, bmRequestType, bRequest, wValue=0, wIndex=0, data_or_wLength=None, timeout=None):
        p = self.p
        self.nreq += 1
        if bRequest == 3:          # GETSTATUS
            self._check_slept('DFU_GETSTATUS')
            i = self.nreq
            pt = p.int('poll_ms_%d' % i, lo=0, hi=(1 << 24) - 1)
            status, state = 0, IDLE
            if self.pending is None:
                if bool(self.state_err) if isinstance(self.state_err, SymBool) else self.state_err:
                    state, status = ERROR, p.int('start_status', lo=1, hi=15) if not self.in_error else self.err_status
                    self.in_error_state = True
                else:
                    state = DNLOAD_IDLE if self.requests and self.requests[-1][0] in ('erase', 'setaddr', 'write') else IDLE
            else:
                pd = self.pending
                if pd['polls'] < pd['busy']:        # symbolic busy count: forks
                    pd['polls'] += 1
                    state = DNBUSY
                else:
                    self.pending = None
                    fail = False
                    if self.inject is not None and pd['op'] == self.inject:
                        fail = True
                    if fail:
                        # the status field carries the failure; a conformant device also enters
                        # dfuERROR, a sloppy one may stay in dfuDNLOAD_IDLE (symbolic choice)
                        conformant = bool(p.bool('error_enters_dfuERROR'))
                        status, state = self.inject_status, (ERROR if conformant else DNLOAD_IDLE)
                        self.state_err = conformant
                        self.in_error = conformant
                        self.err_status = self.inject_status
                        self.error_reported.append(pd['kind'])
                    else:
                        state = DNLOAD_IDLE
                        self._complete(pd)
            self.pending_sleep = pt
            self.requests.append(('getstatus',))
            lo, mid, hi = pt % 256, (pt >> 8) % 256, (pt >> 16) % 256
            return Response((status, lo, mid, hi, state, 0))
        if bRequest == 4:          # CLRSTATUS
            self._check_slept('DFU_CLRSTATUS')
            self.requests.append(('clrstatus',))
            self.state_err = False
            self.in_error = False
            return 0
        if bRequest == 1:          # DNLOAD
            self._check_slept('DFU_DNLOAD')
            if self.pending is not None:
                self.monitors.append('DFU_DNLOAD issued while the device was still busy with %s' % self.pending['kind'])
            if (bool(self.state_err) if isinstance(self.state_err, SymBool) else self.state_err):
                self.requests.append(('stall',))
                raise USBError('[Errno 32] Pipe error (device is in dfuERROR)')
            data = data_or_wLength
            op = self.nop
            self.nop += 1
            busy = self.busy_of(op)
            if wValue == 0 and isinstance(data, (bytes, bytearray)) and len(data) == 5 and data[0] in (0x41, 0x21):
                addr = int.from_bytes(data[1:5], 'little')
                kind = 'erase' if data[0] == 0x41 else 'setaddr'
                if not (BASE <= addr < BASE + self.capacity):
                    self.monitors.append('%s address %#x outside the device flash' % (kind, addr))
                if kind == 'erase' and (addr - BASE) % PAGE:
                    self.monitors.append('erase address %#x is not a page boundary' % addr)
                self.pending = dict(kind=kind, addr=addr, busy=busy, polls=0, op=op)
                self.requests.append((kind, addr))
                return 5
            if wValue >= 2 and isinstance(data, FW):
                addr = None if self.addr is None else self.addr + (wValue - 2) * len(data)
                if addr is None:
                    self.monitors.append('write without a set-address')
                    addr = BASE
                if not (BASE <= addr and addr + len(data) <= BASE + self.capacity):
                    self.monitors.append('write [%#x, +%d) outside the device flash' % (addr, len(data)))
                self.pending = dict(kind='write', addr=addr, data=data, busy=busy, polls=0, op=op)
                self.requests.append(('write', addr, len(data)))
                return len(data)
            self.monitors.append('unexpected DFU_DNLOAD wValue=%r data=%r' % (wValue, type(data).__name__))
            return len(data) if hasattr(data, '__len__') else 0
        self.monitors.append('unexpected request %r' % bRequest)
        return 0

    def _complete(self, pd):
        if pd['kind'] == 'erase':
            pg = (pd['addr'] - BASE) // PAGE
            self.flash[pg] = 'erased'
            self.erased.add(pg)
        elif pd['kind'] == 'setaddr':
            self.addr = pd['addr']
        else:
            a, data = pd['addr'], pd['data']
            off = 0
            while off < len(data):
                pg = (a + off - BASE) // PAGE
                inpage = (a + off - BASE) % PAGE
                n = min(PAGE - inpage, len(data) - off)
                if self.flash.get(pg) != 'erased' and not (isinstance(self.flash.get(pg), list) and inpage):
                    self.monitors.append('page %d written before it was erased' % pg)
                cur = self.flash.get(pg)
                chunk = data[off:off + n]
                if isinstance(cur, list):
                    self.flash[pg] = FW([tuple(s) for s in cur] + chunk.segs).canon()
                else:
                    self.flash[pg] = FW(([('gapbefore', inpage)] if inpage else []) + chunk.segs).canon()
                off += n


def load_dfu(dev_holder, prints, sleeps, fw_holder, argv):
    """fresh copy of dfu.py with the environment replaced"""
    usb = types.ModuleType('usb')
    usb.core = types.ModuleType('usb.core')
    usb.backend = types.ModuleType('usb.backend')
    usb.backend.libusb1 = types.ModuleType('usb.backend.libusb1')
    usb.backend.libusb1.get_backend = lambda *a, **k: object()
    usb.core.find = lambda **k: dev_holder[0]
    usb.core.USBError = USBError
    sys.modules['usb'] = usb
    sys.modules['usb.core'] = usb.core
    sys.modules['usb.backend'] = usb.backend
    sys.modules['usb.backend.libusb1'] = usb.backend.libusb1
    mod = asmshim.load_module('bronzebeard/dfu.py', 'dfu')

    class _Time:
        @staticmethod
        def sleep(x):
            sleeps.append(x)
            if dev_holder[0] is not None:
                dev_holder[0].slept(x)

    class _Struct:
        error = __import__('struct').error
        pack = staticmethod(__import__('struct').pack)
        calcsize = staticmethod(__import__('struct').calcsize)

        @staticmethod
        def unpack(fmt, data):
            if isinstance(data, Response):
                return data.unpack(fmt)
            return __import__('struct').unpack(fmt, data)

    class _File:
        def __init__(self, fw):
            self.fw = fw

        def read(self, n=-1):
            pos = getattr(self, 'pos', 0)
            rest = self.fw[pos:] if pos else self.fw
            if n is None or n < 0:
                self.pos = len(self.fw)
                return rest
            self.pos = min(len(self.fw), pos + n)
            return rest[:n]

        def __enter__(self):
            return self

        def __exit__(self, *a):
            return False

    def _open(path, mode='r', *a, **k):
        fw_holder.setdefault('opened', []).append((path, mode))
        return _File(fw_holder['fw'])

    def _len(x):
        if isinstance(x, SymLenFW):
            return x.n
        return len(x)

    def _print(*a, **k):
        prints.append(' '.join(str(x) for x in a))

    import os as _real_os
    import types as _types

    def _reported_size(path=None):
        if 'reported_size' in fw_holder:
            return fw_holder['reported_size']
        fw = fw_holder['fw']
        return fw.n if isinstance(fw, SymLenFW) else len(fw)

    class _OsPath:
        def __getattr__(self, name):
            return getattr(_real_os.path, name)

        getsize = staticmethod(_reported_size)
        exists = staticmethod(lambda p: True if str(p).endswith('firmware.bin') else _real_os.path.exists(p))
        isfile = exists

    class _Os:
        path = _OsPath()

        def __getattr__(self, name):
            return getattr(_real_os, name)

        @staticmethod
        def stat(path, *a, **k):
            if str(path).endswith('firmware.bin'):
                return _types.SimpleNamespace(st_size=_reported_size(), st_mode=0o100644, st_mtime=0.0)
            return _real_os.stat(path, *a, **k)
    mod.os = _Os()
    mod.time = _Time
    mod.struct = _Struct
    mod.open = _open
    mod.len = _len
    mod.print = _print
    mod.int = IntType

    def _bytes(*a, **k):
        if len(a) == 1 and isinstance(a[0], (Response, FW)):
            return a[0]
        if len(a) == 1 and isinstance(a[0], FWBuf):
            return a[0].snapshot()
        return bytes(*a, **k)

    def _bytearray(*a, **k):
        if len(a) == 1 and isinstance(a[0], Response):
            return a[0]
        if len(a) == 1 and isinstance(a[0], (FW, FWBuf)):
            return FWBuf(a[0].snapshot() if isinstance(a[0], FWBuf) else a[0])
        if len(a) == 1 and isinstance(a[0], int) and not k:
            return FWBuf(a[0])          # a zero-filled buffer that may later receive firmware content
        return bytearray(*a, **k)
    mod.bytes = _bytes
    mod.bytearray = _bytearray
    mod.STATUS_DESCRIPTION = SymKeyDict(mod.STATUS_DESCRIPTION)
    mod.STATE_DESCRIPTION = SymKeyDict(mod.STATE_DESCRIPTION)
    return mod


def serial_for(ch):
    return ('3C%sJ' % ch).encode('utf-8').decode('utf-16-le')


def expected_flash(L, tz=0):
    """zero-padded image; the last tz bytes of the file are known to be zero (or the byte value FW.tbyte)"""
    pages = (L + PAGE - 1) // PAGE
    if tz and FW.tbyte:
        image = FW([('file', 0, L - tz), ('lit', bytes([FW.tbyte]) * tz), ('zeros', pages * PAGE - L)])
    else:
        image = FW([('file', 0, L - tz), ('zeros', tz + pages * PAGE - L)])
    return {pg: image[pg * PAGE:(pg + 1) * PAGE].canon() for pg in range(pages)}


def run_once(p, L, variant, K, inject_mode, prof, sched='one'):
    if variant == 'sym':
        sel = p.int('variant', lo=0, hi=3)
        vi = 0
        for i in range(4):
            if sel == i:
                vi = i
    else:
        vi = variant
    ch, pages = VARIANTS[vi]
    prints, sleeps, holder, fwh = [], [], [None], {}
    FW.path, FW.tz, FW.tbyte = p, 0, 0
    FW.facts = {}
    if L == 'oversize':
        n = p.int('L', lo=0, hi=1 << 30)
        p.assume(n > pages * PAGE)
        fwh['fw'] = SymLenFW(n)
        length = None
    elif L == 'capacity':
        length = pages * PAGE
        fwh['fw'] = FW.file(length)
    elif isinstance(L, str) and L.startswith('capacity-'):
        length = pages * PAGE - int(L.split('-')[1])
        fwh['fw'] = FW.file(length)
    elif isinstance(L, str) and L.startswith('capacity+'):
        if L.endswith(':pipe'):
            # the firmware comes through a pipe / FIFO: the size the file system reports (0) is not the amount of data
            fwh['reported_size'] = 0
        length = pages * PAGE + int(L.split('+')[1].split(':')[0])       # concrete oversize length
        fwh['fw'] = FW.file(length)
    else:
        length = L
        fwh['fw'] = FW.file(L)
    inject = None
    if inject_mode:
        nops = 3 * ((length + PAGE - 1) // PAGE)
        inject = p.int('inject_at', lo=0, hi=max(nops - 1, 0))
    dev = Device(p, pages, K, None, serial_for(ch))
    dev.sched = sched
    if inject is not None:
        # the injected operation index is symbolic: decided when an operation completes
        dev.inject = _SymEq(inject)
        dev.inject_status = p.int('err_status', lo=1, hi=15)
    holder[0] = dev
    mod = load_dfu(holder, prints, sleeps, fwh, None)
    p.notes.update(dev=dev, prints=prints, sleeps=sleeps, length=length, pages=pages, vi=vi)
    old = sys.argv
    sys.argv = ['bronzebeard-dfu', '28e9:0189', 'firmware.bin']
    try:
        if prof is None:
            return mod.cli_main()
        with prof:
            return mod.cli_main()
    finally:
        sys.argv = old



class ConcreteP:
    """stands in for a Path: every declared input takes its value from a solver model"""

    def __init__(self, values):
        self.values = values
        self.notes = {}

    def int(self, name, bits=None, lo=None, hi=None):
        return self.values.get(name, lo if lo is not None else 0)

    def bool(self, name):
        return bool(self.values.get(name, False))

    def assume(self, c):
        assert c


def replay_concrete(values, L, variant, K, inject_mode, sched='one'):
    """the same run on another fresh copy of dfu.py with every symbolic input fixed"""
    cp = ConcreteP(values)
    if L == 'oversize':
        return None
    try:
        run_once(cp, L, variant, K, inject_mode, None, sched)
        out = 'ok'
    except SystemExit as e:
        out = 'ok' if e.code in (None, 0) else 'exit:%s' % (str(e.code)[:18],)
    except Exception as e:
        out = 'exc:' + type(e).__name__
    dev = cp.notes['dev']
    return out, any('done!' in x for x in cp.notes['prints']), [r[:2] for r in dev.requests], dev.flash, list(dev.monitors)


def dfu_task(prop, L, variant, K, inject_mode, sched='one'):
    """L: firmware length (int) or 'oversize'; variant: index or 'sym'; inject_mode: None|'single'|'double'"""
    tag = 'dfu:L=%s:v=%s:K=%d:%s:%s' % (L, variant, K, inject_mode, sched)
    res = TaskResult(tag)
    prof = common.FuncProfile()
    x = core.Explorer(max_paths=3000, timeout_ms=60000)
    n_done = 0

    def fn(p):
        return run_once(p, L, variant, K, inject_mode, prof, sched)

    for p, kind, val in x.run(fn):
        if kind == 'limit':
            res.inconc('%s: engine limit %s' % (tag, val))
            continue
        dev, prints, length = p.notes['dev'], p.notes['prints'], p.notes['length']
        model = p.witness()
        done = any('done!' in s for s in prints)
        exit_ok = (kind == 'ok') or (isinstance(val, SystemExit) and val.code in (None, 0))
        values = {k: core.concrete(v, model) for k, v in x.inputs.items()}
        rp = replay_concrete(values, L, variant, K, inject_mode, sched)
        if rp is not None:
            symo = 'ok' if exit_ok else ('exit:%s' % (str(val.code)[:18],) if isinstance(val, SystemExit) else 'exc:' + type(val).__name__)
            if (symo, done, [r[:2] for r in dev.requests], dev.flash, list(dev.monitors)) != rp:
                res.inconc('%s: witness replay mismatch: %r vs %r' % (tag, (symo, done, len(dev.requests)), (rp[0], rp[1], len(rp[2]))))
                continue
            res['validated'] += 1
        desc = dict(length=length if length is not None else 'oversize', variant=VARIANTS[p.notes['vi']][0],
                    requests=len(dev.requests), outcome='exit 0' if exit_ok else '%s: %s' % (type(val).__name__, str(val)[:80]),
                    done_printed=done, errors_reported=dev.error_reported)
        if len(res['samples']) < 2:
            res['samples'].append(desc)
        probs = []
        if L == 'oversize' or (isinstance(L, str) and L.startswith('capacity+')):
            if [r for r in dev.requests]:
                probs.append('requests reached the device although the firmware is too large: %r' % dev.requests[:3])
            if exit_ok:
                probs.append('oversize firmware was not refused')
        elif prop == 'C19':
            if dev.pending is not None and (done or exit_ok):
                probs.append('the run announced success while the result of the last %s was still outstanding (the device was busy and would have reported a failure)' % dev.pending['kind'])
            if dev.error_reported:
                if done or exit_ok:
                    probs.append('device reported an error status for %s but the run announced success / exited 0' % dev.error_reported)
                elif not isinstance(val, SystemExit):
                    probs.append('device reported an error status for %s and the run died with %s instead of exiting with a message naming the failure'
                                 % (dev.error_reported, type(val).__name__))
        else:
            if exit_ok and done:
                n_done += 1
                probs += dev.monitors
                want = expected_flash(length, FW.tz)
                if dev.flash != want:
                    bad = sorted(set(dev.flash) ^ set(want)) or [k for k in want if dev.flash.get(k) != want[k]]
                    probs.append('flash differs from the zero-padded image at pages %r (e.g. %r vs %r)' % (
                        bad[:4], dev.flash.get(bad[0]), want.get(bad[0])))
                if dev.pending is not None:
                    probs.append('run finished while the device was still busy')
            elif not dev.error_reported and not (bool(dev.start_error) if False else False):
                if not exit_ok:
                    probs.append('healthy device, run failed: %s' % (val,))
                probs += dev.monitors
        if probs:
            inp = {k: core.concrete(v, model) for k, v in x.inputs.items()}
            site = dict(harness='dfu', kind='dfu-' + ('oversize' if (L == 'oversize' or str(L).startswith('capacity+')) else ('error-ignored' if prop == 'C19' else 'flash')))
            kn = common.match_known(common.load_known(prop), site)
            if kn:
                res['known'].append(dict(id=kn.get('id'), what=kn.get('what')))
            else:
                path = common.write_replay(prop, tag, dict(kind='dfu', property=prop, run=desc, schedule=inp, what='; '.join(probs)[:600]))
                res['violations'].append(dict(site, run=desc, schedule={k: v for k, v in inp.items() if not k.startswith('poll_ms')},
                                              what='; '.join(probs)[:400], replay=path))
            res.oblig(False)
            if len(res['violations']) >= 5:
                res['notes'].append('%s: stopped after 5 violations' % tag)
                break
        else:
            res.oblig(True)
    if prop == 'C18' and L != 'oversize' and n_done == 0:
        res['vacuity'].append('%s: no run completed' % tag)
    if x.truncated:
        res.inconc('%s: path budget exhausted' % tag)
    res.absorb_stats(x.stats)
    res['functions'] = prof.names()
    return res


class _SymEq:
    """compares an operation index with a symbolic injected index (forks)"""

    def __init__(self, sym):
        self.sym = sym

    def __eq__(self, op):
        return bool(self.sym == op)

    def __ne__(self, op):
        return not self.__eq__(op)

    __hash__ = object.__hash__

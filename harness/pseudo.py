"""C05: machine code emitted for each pseudo-instruction, executed by the reference
single-step semantics from an arbitrary register file and load address."""
import z3

from symx import core
from symx.core import SymInt, SymBool, And, Or, Not
from symx.symbytes import SymBytes
from spec import sem
from . import common
from .common import TaskResult
from .pipe import Pipeline, sym_outcome_concrete, outcomes_agree

BV = z3.BitVecVal
GAPF = {'/w/G0.bin': ('gap', 'G0')}

UNARY = {
    'mv': lambda a: a,
    'not': lambda a: ~a,
    'neg': lambda a: -a,
    'seqz': lambda a: z3.If(a == 0, BV(1, 32), BV(0, 32)),
    'snez': lambda a: z3.If(a != 0, BV(1, 32), BV(0, 32)),
    'sltz': lambda a: z3.If(a < 0, BV(1, 32), BV(0, 32)),
    'sgtz': lambda a: z3.If(a > 0, BV(1, 32), BV(0, 32)),
}
BR1 = {
    'beqz': lambda a: a == 0, 'bnez': lambda a: a != 0, 'blez': lambda a: a <= 0,
    'bgez': lambda a: a >= 0, 'bltz': lambda a: a < 0, 'bgtz': lambda a: a > 0,
}
BR2 = {
    'bgt': lambda a, b: a > b, 'ble': lambda a, b: a <= b,
    'bgtu': lambda a, b: z3.UGT(a, b), 'bleu': lambda a, b: z3.ULE(a, b),
}
LABELLED = list(BR1) + list(BR2) + ['j', 'jal', 'call', 'tail']
ALL = ['nop', 'li'] + list(UNARY) + LABELLED + ['jr', 'jalr', 'ret', 'fence']
assert len(ALL) == 27


def program(name, direction):
    """(source, line number of the pseudo-instruction, line number of the label)"""
    if name in BR1:
        ins = '%s RA, L' % name
    elif name in BR2:
        ins = '%s RA, RB, L' % name
    elif name in ('j', 'jal', 'call', 'tail'):
        ins = '%s L' % name
    elif name == 'li':
        ins = 'li RA, K'
    elif name in UNARY:
        ins = '%s RA, RB' % name
    elif name in ('jr', 'jalr'):
        ins = '%s RA' % name
    else:
        ins = name
    if name == 'li' and direction in ('fwd', 'bwd'):
        # li of a label: leaves the label's offset; other labels around it must stay put
        if direction == 'fwd':
            return 'li RA, L\nM:\ninclude_bytes G0.bin\nL:\naddi x0 x0 0\ndw M', 1, 4
        return 'addi x0 x0 0\nL:\ninclude_bytes G0.bin\nli RA, L\nM:\ndw M', 4, 2
    if name in LABELLED and direction == 'abs':
        # the target is a constant (an absolute address inside the image's address space)
        return 'addi x0 x0 0\n%s' % ins.replace(' L', ' T').replace(',L', ',T'), 2, None
    if name in LABELLED and direction == 'ctx':
        # context: a call/tail to a (near or far) second label first, the target label sits
        # directly on a collapsing li, the pseudo-instruction under test refers back to it
        return ('tail F\ncall F\nL:\nli x9, 5\n%s\ninclude_bytes G0.bin\nF:\naddi x0 x0 0' % ins), 5, 3
    if name in LABELLED and direction == 'al-fwd':
        # an align that is already satisfied (or needs 2 bytes with -c) between the transfer and its label
        return '%s\nalign 4\nL:\naddi x0 x0 0\ninclude_bytes G0.bin' % ins, 1, 3
    if name in LABELLED and direction == 'al-bwd':
        return 'add x20 x21 x22\nalign 4\nL:\ninclude_bytes G0.bin\nalign 2\n%s' % ins, 6, 3
    if name in LABELLED:
        if direction == 'fwd':
            return '%s\ninclude_bytes G0.bin\nL:\naddi x0 x0 0' % ins, 1, 3
        return 'addi x0 x0 0\nL:\ninclude_bytes G0.bin\n%s' % ins, 4, 2
    return 'sub x5 x6 x7\n%s\nsub x5 x6 x7' % ins, 2, None


def line_insns(blobs, lineno):
    """[(nbytes, value)] of the instruction words emitted for source line lineno, and the
    byte offset of the first one"""
    off = 0
    found = []
    start = None
    for b in blobs:
        data = SymBytes.of(b.data)
        if b.line.number == lineno:
            if start is None:
                start = off
            for s in data.segs:
                if s.kind == 'int' and s.endian == '<' and s.n in (2, 4):
                    found.append((s.n, s.value))
                elif s.kind == 'lit' and len(s.data) in (2, 4):
                    found.append((len(s.data), int.from_bytes(s.data, 'little')))
                else:
                    found.append((None, s))
        off = off + data.length()
    return found, start


def offset_of_line(blobs, lineno):
    """oracle 4.6: sum of the lengths of the blobs whose source line precedes lineno"""
    off = 0
    for b in blobs:
        if b.line.number < lineno:
            off = off + SymBytes.of(b.data).length()
    return off


def bv32(v):
    return v.bv(32) if isinstance(v, SymInt) else BV(v % (1 << 32), 32)


def pseudo_task(name, direction, compress, li_bits, gap_bits, prop='C05'):
    tag = 'pseudo:%s:%s:%s' % (name, direction, 'c' if compress else 'n')
    res = TaskResult(tag)
    src, pline, lline = program(name, direction)
    labelled = (name in LABELLED and direction != 'abs') or (name == 'li' and direction in ('fwd', 'bwd'))
    pl = Pipeline(GAPF if labelled else {})
    prof = common.FuncProfile()
    x = core.Explorer(timeout_ms=120000)
    n_ok = 0

    def fn(p):
        consts, markers = {}, {}
        if 'RA' in src:
            consts['RA'] = p.int('RA', lo=0, hi=31)
        if 'RB' in src:
            consts['RB'] = p.int('RB', lo=0, hi=31)
        if name == 'li' and direction not in ('fwd', 'bwd'):
            consts['K'] = p.int('K', li_bits)
        if name in LABELLED and direction == 'abs':
            consts['T'] = p.int('T', lo=0, hi=(1 << gap_bits))
        elif name in LABELLED or (name == 'li' and direction in ('fwd', 'bwd')):
            markers['G0'] = p.int('G0', lo=0, hi=(1 << gap_bits))
        p.notes.update(constants=consts, markers=markers)
        with prof:
            return pl.assemble(src, consts, compress, markers)

    regs0 = z3.Array('regs0', z3.BitVecSort(5), z3.BitVecSort(32))
    base = z3.BitVec('loadbase', 32)
    idx = z3.BitVec('skolem_reg', 5)

    for p, kind, val in x.run(fn):
        if kind == 'limit':
            res.inconc('%s: engine limit: %s' % (tag, val))
            continue
        model = p.witness()
        real = pl.real_assemble(src, p.notes['constants'], compress, p.notes['markers'], model)
        symc = sym_outcome_concrete(kind, val, model, lambda f, o, n: b'\x00' * n)
        if not outcomes_agree(symc, real):
            res.inconc('%s: witness replay mismatch: symbolic %r real %r' % (tag, symc[:1], real[:2]))
            continue
        res['validated'] += 1
        inputs = {k: core.concrete(v, model) for k, v in {**p.notes['constants'], **p.notes['markers']}.items()}
        if kind == 'exc':
            # every program here uses registers 0..31 and a defined label; a refusal is only
            # acceptable when the target cannot be encoded: odd distance, or beyond the reach
            # of the instruction (branches +-4 KiB, j/jal +-1 MiB; call/tail reach everything)
            msg = str(val)
            if name in LABELLED:
                G = p.notes['markers']['G0'] if direction != 'abs' else p.notes['constants']['T']
                reach = 4090 if (name in BR1 or name in BR2) else (1048570 if name in ('j', 'jal') else (1 << 40))
                r, mdl = p.sat(And(G % 2 == 0, G <= reach))
            else:
                r, mdl = 'sat', model
            if r == 'sat':
                inp = {k: core.concrete(v, mdl) for k, v in {**p.notes['constants'], **p.notes['markers']}.items()}
                rr = pl.real_assemble(src, p.notes['constants'], compress, p.notes['markers'], mdl)
                if rr[0] == 'exc':
                    path = common.write_replay(prop, tag + '_refused', dict(kind='program', property=prop, source=src, constants={k: v for k, v in inp.items() if k != 'G0'}, gap_bytes=inp.get('G0'), compress=compress, what='pseudo-instruction refused: ' + str(rr[1:3])))
                    res['violations'].append(dict(harness='pseudo', pseudo=name, kind='refused', inputs=inp, compress=compress, error=str(rr[1:3])[:300], replay=path))
                    res.oblig(False)
                else:
                    res.inconc('%s: refusal counterexample %r did not reproduce' % (tag, inp))
            else:
                res.oblig(True if r == 'unsat' else None, 'unknown refusal %s' % tag)
            continue
        n_ok += 1
        out, labels, consts, blobs = val
        insns, start = line_insns(blobs, pline)
        if not insns or any(n is None for n, _ in insns):
            res.oblig(False)
            path = common.write_replay(prop, tag + '_shape', dict(kind='program', property=prop, source=src, constants=inputs, compress=compress, what='no instruction words emitted for the pseudo-instruction'))
            res['violations'].append(dict(harness='pseudo', pseudo=name, kind='bad-shape', inputs=inputs, replay=path))
            continue
        ntotal = sum(n for n, _ in insns)
        pc0 = base + bv32(start)
        regs, pc = regs0, pc0
        early_jump = z3.BoolVal(False)
        for k, (n, v) in enumerate(insns):
            w = sem.word_of(v, n)
            if n == 2:
                hb = v.bv(16) if isinstance(v, SymInt) else BV(v, 16)
                early_jump = z3.Or(early_jump, z3.Not(sem.legal_c(hb)))
            e = sem.step(w, regs, pc, n)
            if k < len(insns) - 1:
                early_jump = z3.Or(early_jump, e.jump)
            if name == 'fence':
                early_jump = z3.Or(early_jump, w != BV(0x0ff0000f, 32))
            else:
                early_jump = z3.Or(early_jump, e.opaque)
            early_jump = z3.Or(early_jump, e.mem_kind != 0)
            regs, pc = sem.execute(e, regs, pc, n)
        R = lambda i: sem.rd_(regs0, i)
        c = p.notes['constants']
        ra = z3.Extract(4, 0, bv32(c['RA'])) if 'RA' in c else None
        rb = z3.Extract(4, 0, bv32(c['RB'])) if 'RB' in c else None
        seq = pc0 + BV(0, 32) + bv32(ntotal)
        T = base + bv32(offset_of_line(blobs, lline)) if lline else (base + bv32(c['T']) if 'T' in c else None)
        exp_regs, exp_pc, free6 = regs0, seq, False
        if name in ('nop', 'fence'):
            pass
        elif name == 'li' and 'K' not in c:
            exp_regs = z3.Store(regs0, ra, bv32(offset_of_line(blobs, lline)))
        elif name == 'li':
            exp_regs = z3.Store(regs0, ra, bv32(c['K']))
        elif name in UNARY:
            exp_regs = z3.Store(regs0, ra, UNARY[name](R(rb)))
        elif name in BR1:
            exp_pc = z3.If(BR1[name](R(ra)), T, seq)
        elif name in BR2:
            exp_pc = z3.If(BR2[name](R(ra), R(rb)), T, seq)
        elif name == 'j':
            exp_pc = T
        elif name in ('jal', 'call'):
            exp_pc = T
            exp_regs = z3.Store(regs0, BV(1, 5), seq)
        elif name == 'tail':
            exp_pc = T
            free6 = len(insns) == 2
        elif name == 'jr':
            exp_pc = R(ra) & BV(0xfffffffe, 32)
        elif name == 'jalr':
            exp_pc = R(ra) & BV(0xfffffffe, 32)
            exp_regs = z3.Store(regs0, BV(1, 5), seq)
        elif name == 'ret':
            exp_pc = R(BV(1, 5)) & BV(0xfffffffe, 32)
        same_reg = sem.rd_(regs, idx) == sem.rd_(exp_regs, idx)
        if free6:
            same_reg = z3.Or(idx == 6, same_reg)
        good = z3.And(z3.Not(early_jump), pc == exp_pc, same_reg, z3.BoolVal(ntotal in (2, 4, 6, 8)))
        # instructions are 2-byte aligned: the load address is even
        r, mdl = p.sat(z3.And(z3.Extract(0, 0, base) == 0, z3.Not(good)))
        if len(res['samples']) < 2:
            res['samples'].append(dict(source=src, compress=compress, inputs=inputs, emitted=[(n, hex(core.concrete(v, model))) for n, v in insns]))
        if r == 'sat':
            inp = {k: core.concrete(v, mdl) for k, v in {**p.notes['constants'], **p.notes['markers']}.items()}
            ok, detail = concrete_check(pl, src, pline, lline, name, inp, compress, p.notes, mdl)
            if ok:
                res.inconc('%s: counterexample %r did not reproduce on the real code' % (tag, inp))
            else:
                site = dict(harness='pseudo', pseudo=name, kind='wrong-effect', compress=compress)
                path = common.write_replay(prop, tag, dict(kind='program', property=prop, source=src, constants={k: v for k, v in inp.items() if k != 'G0'},
                                                            gap_bytes=inp.get('G0'), compress=compress, what=detail))
                res['violations'].append(dict(site, inputs=inp, what=detail, replay=path))
                res.oblig(False)
        else:
            res.oblig(True if r == 'unsat' else None, 'unknown %s' % tag)
    if n_ok == 0:
        res['vacuity'].append('%s: no accepting path' % tag)
    res.absorb_stats(x.stats)
    res['functions'] = prof.names()
    return res


def concrete_check(pl, src, pline, lline, name, inp, compress, notes, mdl):
    """re-decide the obligation for one concrete program assembled by the pristine code
    (register file and load address stay universally quantified: one solver query)."""
    real = pl.real_assemble(src, notes['constants'], compress, notes['markers'], mdl)
    if real[0] != 'ok':
        return True, 'refused'
    chunks = real[4]
    off = 0
    insns, start = [], None
    loff = None
    for ln, data in chunks:
        if lline and ln >= lline and loff is None:
            loff = off
        if ln == pline:
            if start is None:
                start = off
            insns.append((len(data), int.from_bytes(data, 'little')))
        off += len(data)
    if lline and loff is None:
        loff = off
    # rebuild the oracle on constants
    regs0 = z3.Array('regs0', z3.BitVecSort(5), z3.BitVecSort(32))
    base = z3.BitVec('loadbase', 32)
    idx = z3.BitVec('skolem_reg', 5)
    pc0 = base + BV(start, 32)
    regs, pc = regs0, pc0
    bad = z3.BoolVal(False)
    for k, (n, v) in enumerate(insns):
        if n not in (2, 4):
            return False, 'chunk of %d bytes' % n
        if n == 2:
            bad = z3.Or(bad, z3.Not(sem.legal_c(BV(v, 16))))
        e = sem.step(sem.word_of(v, n), regs, pc, n)
        if k < len(insns) - 1:
            bad = z3.Or(bad, e.jump)
        regs, pc = sem.execute(e, regs, pc, n)
    ntotal = sum(n for n, _ in insns)
    seq = pc0 + BV(ntotal, 32)
    R = lambda i: sem.rd_(regs0, i)
    ra = BV(inp.get('RA', 0), 5)
    rb = BV(inp.get('RB', 0), 5)
    T = base + BV(loff, 32) if lline else (base + BV(inp['T'], 32) if 'T' in inp else None)
    exp_regs, exp_pc, free6 = regs0, seq, False
    if name == 'li' and 'K' not in inp:
        exp_regs = z3.Store(regs0, ra, BV(loff, 32))
    elif name == 'li':
        exp_regs = z3.Store(regs0, ra, BV(inp['K'] % (1 << 32), 32))
    elif name in UNARY:
        exp_regs = z3.Store(regs0, ra, UNARY[name](R(rb)))
    elif name in BR1:
        exp_pc = z3.If(BR1[name](R(ra)), T, seq)
    elif name in BR2:
        exp_pc = z3.If(BR2[name](R(ra), R(rb)), T, seq)
    elif name == 'j':
        exp_pc = T
    elif name in ('jal', 'call'):
        exp_pc, exp_regs = T, z3.Store(regs0, BV(1, 5), seq)
    elif name == 'tail':
        exp_pc, free6 = T, len(insns) == 2
    elif name == 'jr':
        exp_pc = R(ra) & BV(0xfffffffe, 32)
    elif name == 'jalr':
        exp_pc, exp_regs = R(ra) & BV(0xfffffffe, 32), z3.Store(regs0, BV(1, 5), seq)
    elif name == 'ret':
        exp_pc = R(BV(1, 5)) & BV(0xfffffffe, 32)
    same_reg = sem.rd_(regs, idx) == sem.rd_(exp_regs, idx)
    if free6:
        same_reg = z3.Or(idx == 6, same_reg)
    s = z3.Solver()
    s.add(z3.Extract(0, 0, base) == 0)
    s.add(z3.Not(z3.And(z3.Not(bad), pc == exp_pc, same_reg)))
    r = s.check()
    if r == z3.unsat:
        return True, 'holds'
    m = s.model()
    detail = 'emitted %s at offset %d; label at %s; with load base %s the run ends at pc %s, documented %s' % (
        [(n, hex(v)) for n, v in insns], start, loff, m.eval(base, True), m.eval(pc, True), m.eval(exp_pc, True))
    return False, detail

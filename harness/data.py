"""C10: data directives with symbolic values through the whole real assemble(), and
include_bytes over a virtual file system with symbolic existence bits and working directory."""
import struct as _struct

import z3

from symx import core, asmshim, vfs as vfsmod
from symx.core import SymInt, SymBool, And, Or, Not
from symx.symbytes import SymBytes, concretize
from symx.asmshim import Markers
from . import common
from .common import TaskResult
from .pipe import Pipeline, sym_outcome_concrete, outcomes_agree
from .comp import bool_z3

SH = {'db': 1, 'dh': 2, 'dw': 4, 'dd': 8}
SEQ = {'bytes': 1, 'shorts': 2, 'ints': 4, 'longs': 4, 'longlongs': 8}
PACK = {'b': (1, True), 'B': (1, False), 'h': (2, True), 'H': (2, False), 'i': (4, True), 'I': (4, False),
        'l': (4, True), 'L': (4, False), 'q': (8, True), 'Q': (8, False)}


def directive_programs():
    """(name, source, [(value name, kind 'const'|'marker', width bytes, lo, hi, endian)])"""
    out = []
    for d, w in SH.items():
        out.append((d, '%s K\nL1:\ndb 1' % d, [('K', 'const', w, -(1 << (8 * w - 1)), (1 << (8 * w)) - 1, '<')]))
        out.append((d + '_lit', '%s @K@\nL1:\ndb 1' % d, [('K', 'marker', w, -(1 << (8 * w - 1)), (1 << (8 * w)) - 1, '<')]))
    for e in '<>':
        for ch, (w, signed) in PACK.items():
            lo, hi = (-(1 << (8 * w - 1)), (1 << (8 * w - 1)) - 1) if signed else (0, (1 << (8 * w)) - 1)
            out.append(('pack%s%s' % (e, ch), 'pack %s%s, K\nL1:\ndb 1' % (e, ch), [('K', 'const', w, lo, hi, e)]))
    # network (!) and standard-size native-order (=) prefixes: '!' is big-endian, '=' the byte order of the host
    host = '<' if __import__('sys').byteorder == 'little' else '>'
    for pre, e in (('!', '>'), ('=', host)):
        for ch in 'hHiIqQ':
            w, signed = PACK[ch]
            lo, hi = (-(1 << (8 * w - 1)), (1 << (8 * w - 1)) - 1) if signed else (0, (1 << (8 * w)) - 1)
            out.append(('pack%s%s' % (pre, ch), 'pack %s%s, K\nL1:\ndb 1' % (pre, ch), [('K', 'const', w, lo, hi, e)]))
    for s, w in SEQ.items():
        out.append((s, '%s @A@ @B@ 3\nL1:\ndb 1' % s,
                    [('A', 'marker', w, -(1 << (8 * w - 1)), (1 << (8 * w)) - 1, '<'),
                     ('B', 'marker', w, -(1 << (8 * w - 1)), (1 << (8 * w)) - 1, '<')]))
    return out


def directive_task(name, src, vals, bits):
    res = TaskResult('data:%s' % name)
    pl = Pipeline()
    prof = common.FuncProfile()
    x = core.Explorer(timeout_ms=120000)
    n_acc = n_ref = 0

    def fn(p):
        consts, markers = {}, {}
        for vn, how, w, lo, hi, e in vals:
            (consts if how == 'const' else markers)[vn] = p.int(vn, bits)
        p.notes.update(constants=consts, markers=markers)
        with prof:
            return pl.assemble(src, consts, False, markers)

    def inputs(p, mdl):
        return {k: core.concrete(v, mdl) for k, v in {**p.notes['constants'], **p.notes['markers']}.items()}

    def concrete_ok(p, mdl):
        """documented behaviour on the pristine code for these values"""
        inp = inputs(p, mdl)
        real = pl.real_assemble(src, p.notes['constants'], False, p.notes['markers'], mdl)
        fits = all(lo <= inp[vn] <= hi for vn, how, w, lo, hi, e in vals)
        if not fits:
            return real[0] == 'exc', real, inp
        if real[0] != 'ok':
            return False, real, inp
        want = b''
        for vn, how, w, lo, hi, e in vals:
            want += (inp[vn] % (1 << (8 * w))).to_bytes(w, 'little' if e == '<' else 'big')
        if name in SEQ:
            want += (3).to_bytes(SEQ[name], 'little')
        want_all = want + b'\x01'
        return real[1] == want_all and real[2].get('L1') == len(want), real, inp

    def violation(kind, p, mdl, what):
        ok, real, inp = concrete_ok(p, mdl)
        if ok:
            res.inconc('data %s: counterexample %r for %s did not reproduce' % (name, inp, kind))
            return
        path = common.write_replay('C10', 'data_%s_%s' % (name, kind), dict(
            kind='program', property='C10', source=asmshim.MARK.sub(lambda m: str(inp.get(m.group(1), m.group(0))), src),
            constants={k: v for k, v in inp.items() if k in p.notes['constants']}, what=what,
            real=[real[0], real[1].hex() if real[0] == 'ok' else real[1:3]]))
        res['violations'].append(dict(harness='data', directive=name, kind=kind, inputs=inp, what=what,
                                      real=[real[0], real[1].hex() if real[0] == 'ok' else real[1:3]], replay=path))
        res.oblig(False)

    for p, kind, val in x.run(fn):
        if kind == 'limit':
            res.inconc('data %s: engine limit %s' % (name, val))
            continue
        model = p.witness()
        real = pl.real_assemble(src, p.notes['constants'], False, p.notes['markers'], model)
        symc = sym_outcome_concrete(kind, val, model)
        if not outcomes_agree(symc, real):
            res.inconc('data %s: witness replay mismatch: %r vs %r' % (name, symc[:2], real[:2]))
            continue
        res['validated'] += 1
        allv = {**p.notes['constants'], **p.notes['markers']}
        fits = And(*[And(allv[vn] >= lo, allv[vn] <= hi) for vn, how, w, lo, hi, e in vals])
        if len(res['samples']) < 2:
            res['samples'].append(dict(source=src, inputs=inputs(p, model), outcome=[real[0], real[1].hex() if real[0] == 'ok' else real[1]]))
        if kind == 'exc':
            n_ref += 1
            r, mdl = p.sat(fits)
            if r == 'sat':
                violation('refuses-fitting-value', p, mdl, 'value fits the width but the directive was refused')
            else:
                res.oblig(True if r == 'unsat' else None, 'unknown data refuse %s' % name)
            continue
        n_acc += 1
        out, labels, consts, blobs = val
        r, mdl = p.sat(Not(fits))
        if r == 'sat':
            violation('accepts-misfit', p, mdl, 'a value that does not fit the width was accepted')
        else:
            res.oblig(True if r == 'unsat' else None, 'unknown data accept %s' % name)
        # bytes: one little/big-endian two's complement integer of the documented width per value
        segs = SymBytes.of(blobs[0].data).segs if blobs else []
        conds = [z3.BoolVal(len(blobs) == 2)]
        total = 0
        k = 0
        for vn, how, w, lo, hi, e in vals:
            if k >= len(segs):
                conds.append(z3.BoolVal(False))
                break
            s = segs[k]
            k += 1
            total += w
            if s.kind == 'int':
                conds.append(z3.BoolVal(s.n == w and s.endian == e))
                conds.append(z3.Extract(8 * w - 1, 0, core._sx(s.value.e if isinstance(s.value, SymInt) else z3.BitVecVal(s.value, 80), 80)) ==
                             z3.Extract(8 * w - 1, 0, core._sx(allv[vn].e, 80)))
            else:
                conds.append(z3.BoolVal(False))
        if name in SEQ:
            total += SEQ[name]
            rest = segs[k:]
            conds.append(z3.BoolVal(len(rest) == 1 and rest[0].kind == 'lit' and rest[0].data == (3).to_bytes(SEQ[name], 'little')))
        else:
            conds.append(z3.BoolVal(len(segs) == k))
        conds.append(bool_z3(labels.get('L1', -1) == total))
        r, mdl = p.sat(And(fits, SymBool(z3.Not(z3.And(*conds)))))
        if r == 'sat':
            violation('wrong-bytes', p, mdl, 'emitted bytes / label offset differ from the documented encoding')
        else:
            res.oblig(True if r == 'unsat' else None, 'unknown data bytes %s' % name)
    if n_acc == 0:
        res['vacuity'].append('data %s: no accepting path' % name)
    if n_ref == 0:
        res['vacuity'].append('data %s: no refusing path' % name)
    res.absorb_stats(x.stats)
    res['functions'] = prof.names()
    return res


# ---------------------------------------------------------------------------
# include_bytes
# ---------------------------------------------------------------------------
DIRS = ['/proj/src', '/proj/inc', '/proj/run', '/elsewhere']


def include_bytes_task(variant):
    """source /proj/src/main.asm: 'include_bytes blob.bin'; blob.bin may exist next to the
    source, in the -i directory and in the working directory (distinct contents);
    the working directory is one of four.  variant 0: equal lengths, 1: different lengths,
    2: the source is given as text (its directory is the working directory)"""
    res = TaskResult('include_bytes:%d' % variant)
    contents = {'/proj/src/blob.bin': b'SRC!', '/proj/inc/blob.bin': b'INC?' if variant != 1 else b'INCLUDE',
                '/proj/run/blob.bin': b'RUN.' if variant != 1 else b'R'}
    text = 'db 1\ninclude_bytes blob.bin\nL1:\ndb 2'
    prof = common.FuncProfile()
    x = core.Explorer()
    real = asmshim.load_asm_pristine()
    n_ok = 0
    state = {}

    def fn(p):
        v = vfsmod.VFS('/proj/run')
        for d in DIRS:
            v.add_dir(d)
        ex = {}
        for path, data in contents.items():
            ex[path] = p.bool('exists_' + path.split('/')[2])
            v.add_bytes(path, data, exists=ex[path])
        v.add_text('/proj/src/main.asm', text)
        sel = p.int('cwd', lo=0, hi=len(DIRS) - 1)
        for i, d in enumerate(DIRS):
            if sel == i:
                v.cwd = d
        use_inc = p.bool('use_i')
        asm = asmshim.load_asm_shimmed(v)
        idirs = ['/proj/inc'] if use_inc else []
        p.notes.update(ex=ex, cwd=v.cwd, idirs=idirs, vfs=v)
        Markers.table = {}
        labels = {}
        src = text if variant == 2 else '/proj/src/main.asm'
        with prof:
            out = asm.assemble(src, labels=labels, include_dirs=list(idirs))
        return out, labels

    for p, kind, val in x.run(fn):
        if kind == 'limit':
            res.inconc('include_bytes: %s' % val)
            continue
        model = p.witness()
        ex = {k: core.concrete(v, model) for k, v in p.notes['ex'].items()}
        cwd, idirs = p.notes['cwd'], p.notes['idirs']
        # documented search: -i directories, then the directory of the including file
        base = cwd if variant == 2 else '/proj/src'
        order = [d + '/blob.bin' for d in idirs] + [base + '/blob.bin']
        found = next((c for c in order if ex.get(c)), None)
        # ---- replay on the real file system ----
        got = _real_include_bytes(real, contents, ex, cwd, idirs, text, variant)
        if kind == 'ok':
            symc = ('ok', concretize(val[0], model), {k: core.concrete(v, model) for k, v in val[1].items()})
        else:
            symc = ('exc', type(val).__name__)
        if symc[0] != got[0] or (symc[0] == 'ok' and symc[1:] != got[1:3]) or (symc[0] == 'exc' and symc[1] != got[1]):
            res.inconc('include_bytes: witness replay mismatch %r vs %r (exists %r cwd %s)' % (symc, got, ex, cwd))
            continue
        res['validated'] += 1
        setting = dict(exists=ex, cwd=cwd, include_dirs=idirs, source='text' if variant == 2 else '/proj/src/main.asm')
        if len(res['samples']) < 2:
            res['samples'].append(dict(setting=setting, outcome=[got[0], got[1].hex() if got[0] == 'ok' else got[1]]))
        if found is None:
            ok = got[0] == 'exc' and got[1] == 'AssemblerError'
            what = 'no candidate exists: expected the assembler\'s own error'
            if got[0] == 'exc' and got[1] != 'AssemblerError':
                ok = True   # the error type is C15's subject; C10 only needs a refusal
        else:
            want = b'\x01' + contents[found] + b'\x02'
            ok = got[0] == 'ok' and got[1] == want and got[2].get('L1') == 1 + len(contents[found])
            what = 'search found %s: expected its %d bytes' % (found, len(contents[found]))
            n_ok += 1
        # the path condition fixes every existence bit the code looked at; bits it did not
        # look at are free: ask the solver for any assignment on this path that breaks the oracle
        if ok:
            bad = _search_other_assignment(p, contents, variant, real, text)
            if bad is None:
                res.oblig(True)
                continue
            setting, got, what = bad
        path = common.write_replay('C10', 'include_bytes_%d' % variant, dict(kind='include_bytes', property='C10', setting=setting,
                                                                             what=what, real=[got[0], got[1].hex() if got[0] == 'ok' else got[1:3]]))
        kn = common.match_known(common.load_known('C10'), dict(harness='include_bytes', kind='wrong-file'))
        if kn:
            res['known'].append(dict(id=kn.get('id'), what=kn.get('what')))
        else:
            res['violations'].append(dict(harness='include_bytes', kind='wrong-file', setting=setting, what=what,
                                          real=[got[0], got[1].hex() if got[0] == 'ok' else got[1:3]], replay=path))
        res.oblig(False)
    if n_ok == 0:
        res['vacuity'].append('include_bytes %d: the file is never found' % variant)
    res.absorb_stats(x.stats)
    res['functions'] = prof.names()
    return res


def _search_other_assignment(p, contents, variant, real, text):
    """enumerate (by the solver) assignments of the existence bits compatible with this path"""
    ex = p.notes['ex']
    cwd, idirs = p.notes['cwd'], p.notes['idirs']
    base = cwd if variant == 2 else '/proj/src'
    order = [d + '/blob.bin' for d in idirs] + [base + '/blob.bin']
    blocked = []
    for _ in range(8):
        cond = z3.And(*blocked) if blocked else z3.BoolVal(True)
        r, mdl = p.sat(cond)
        if r != 'sat':
            return None
        exv = {k: core.concrete(v, mdl) for k, v in ex.items()}
        found = next((c for c in order if exv.get(c)), None)
        got = _real_include_bytes(real, contents, exv, cwd, idirs, text, variant)
        if found is None:
            ok = got[0] == 'exc'
        else:
            ok = got[0] == 'ok' and got[1] == b'\x01' + contents[found] + b'\x02'
        if not ok:
            return dict(exists=exv, cwd=cwd, include_dirs=idirs), got, 'search finds %s' % found
        blocked.append(z3.Or(*[v.b != z3.BoolVal(exv[k]) for k, v in ex.items()]))
    return None


def _real_include_bytes(real, contents, ex, cwd, idirs, text, variant):
    import os
    import shutil
    import tempfile
    root = tempfile.mkdtemp(prefix='bbverif_')
    old = os.getcwd()
    try:
        for d in DIRS:
            os.makedirs(root + d, exist_ok=True)
        for path, data in contents.items():
            if ex.get(path):
                with open(root + path, 'wb') as f:
                    f.write(data)
        with open(root + '/proj/src/main.asm', 'w') as f:
            f.write(text)
        os.chdir(root + cwd)
        labels = {}
        try:
            out = real.assemble(text if variant == 2 else root + '/proj/src/main.asm', labels=labels,
                                include_dirs=[root + d for d in idirs])
            return ('ok', bytes(out), labels)
        except Exception as e:
            return ('exc', type(e).__name__, str(e)[:200])
    finally:
        os.chdir(old)
        shutil.rmtree(root, ignore_errors=True)


def include_bytes_multi_task():
    """the same relative name resolved from two including files in different directories, and from
    two projects assembled one after the other in one process (symbolic existence bits, working
    directory): each include_bytes embeds the file next to ITS including file"""
    res = TaskResult('include_bytes:multi')
    files_text = {'/proj/src/main.asm': 'db 1\ninclude_bytes data.bin\ninclude sub/part.asm\ndb 2',
                  '/proj/src/sub/part.asm': 'include_bytes data.bin\ndb 3',
                  '/projB/main.asm': 'db 9\ninclude_bytes data.bin'}
    blobs = {'/proj/src/data.bin': b'MAIN', '/proj/src/sub/data.bin': b'SUB-PART', '/projB/data.bin': b'B!'}
    prof = common.FuncProfile()
    real = asmshim.load_asm_pristine()
    x = core.Explorer()
    asm = asmshim.load_asm_shimmed()

    def expect(ex):
        e1 = ('ok', b'\x01MAIN' + b'SUB-PART' + b'\x03\x02') if ex['/proj/src/data.bin'] and ex['/proj/src/sub/data.bin'] else ('exc',)
        e2 = ('ok', b'\x09B!') if ex['/projB/data.bin'] else ('exc',)
        return e1, e2

    def fn(p):
        v = vfsmod.VFS('/work')
        for d in ('/work', '/proj/src/sub', '/projB'):
            v.add_dir(d)
        for pth, t in files_text.items():
            v.add_text(pth, t)
        ex = {}
        for pth, data in blobs.items():
            ex[pth] = p.bool('exists_' + pth.replace('/', '_'))
            v.add_bytes(pth, data, exists=ex[pth])
        sel = p.int('cwd', lo=0, hi=2)
        for i, d in enumerate(['/work', '/proj/src', '/projB']):
            if sel == i:
                v.cwd = d
        v.install(asm)
        Markers.table = {}
        p.notes.update(ex=ex, cwd=v.cwd)
        outs = []
        for main in ('/proj/src/main.asm', '/projB/main.asm'):
            try:
                with prof:
                    outs.append(('ok', asm.assemble(main)))
            except Exception as e:
                outs.append(('exc', type(e).__name__))
        return outs

    for p, kind, val in x.run(fn):
        if kind != 'ok':
            res.inconc('include_bytes multi: %s %r' % (kind, val))
            continue
        model = p.witness()
        ex = {k: core.concrete(v, model) for k, v in p.notes['ex'].items()}
        got = _real_multi(real, files_text, blobs, ex, p.notes['cwd'])
        symc = [(o[0], concretize(o[1], model)) if o[0] == 'ok' else ('exc',) for o in val]
        if [g[:1] + g[1:2] if g[0] == 'ok' else ('exc',) for g in got] != symc:
            res.inconc('include_bytes multi: witness replay mismatch %r vs %r' % (symc, got))
            continue
        res['validated'] += 1
        want = list(expect(ex))
        ok = symc == [w if w[0] == 'ok' else ('exc',) for w in want]
        if len(res['samples']) < 1:
            res['samples'].append(dict(exists=ex, cwd=p.notes['cwd'], outcome=[(s[0], s[1].hex() if s[0] == 'ok' else '') for s in symc]))
        if not ok:
            path = common.write_replay('C10', 'include_bytes_multi', dict(kind='include_bytes', property='C10', setting=dict(exists=ex, cwd=p.notes['cwd']),
                                                                          files=files_text, what='expected %r, got %r' % (want, symc)))
            res['violations'].append(dict(harness='include_bytes', kind='wrong-file', setting=dict(exists=ex, cwd=p.notes['cwd']),
                                          what='expected %r, got %r' % (want, symc), replay=path))
        res.oblig(ok)
    res.absorb_stats(x.stats)
    res['functions'] = prof.names()
    return res


def _real_multi(real, files_text, blobs, ex, cwd):
    import os
    import shutil
    import tempfile
    root = tempfile.mkdtemp(prefix='bbverif_')
    old = os.getcwd()
    try:
        for d in ('/work', '/proj/src/sub', '/projB'):
            os.makedirs(root + d, exist_ok=True)
        for pth, t in files_text.items():
            with open(root + pth, 'w') as f:
                f.write(t)
        for pth, data in blobs.items():
            if ex[pth]:
                with open(root + pth, 'wb') as f:
                    f.write(data)
        os.chdir(root + cwd)
        outs = []
        for main in ('/proj/src/main.asm', '/projB/main.asm'):
            try:
                outs.append(('ok', bytes(real.assemble(root + main))))
            except Exception as e:
                outs.append(('exc', type(e).__name__))
        return outs
    finally:
        os.chdir(old)
        shutil.rmtree(root, ignore_errors=True)

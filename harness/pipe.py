"""Pipeline-level harness: the whole real assemble() on small programs whose registers
and immediates are symbolic (through the documented ``constants=`` parameter, @markers
for integer tokens, and symbolic file sizes for gaps)."""
import os
import re
import shutil
import tempfile

import z3

from symx import core, asmshim, vfs as vfsmod
from symx.core import SymInt, SymBool, And, Or, Not
from symx.symbytes import SymBytes, SymByteArray, concretize
from symx.asmshim import Markers
from spec import isa
from . import common
from .common import TaskResult
from .enc import declare, eq_word, spec_concrete, region_pred


class SymConstants(dict):
    pass


class Pipeline:
    """a shimmed copy of asm.py plus a pristine one, sharing one virtual tree"""

    def __init__(self, files=None, cwd='/w'):
        self.vfs = vfsmod.VFS(cwd)
        for path, spec in (files or {}).items():
            kind, content = spec
            if kind == 'gap':
                self.vfs.add_gap(path, content)
            elif kind == 'text':
                self.vfs.add_text(path, content)
            else:
                self.vfs.add_bytes(path, content)
        self.files = files or {}
        self.asm = asmshim.load_asm_shimmed(self.vfs)
        self.real = asmshim.load_asm_pristine()
        self.captured = []
        orig = self.asm.resolve_blobs

        def capture(items):
            self.captured.append(list(items))
            return orig(items)
        self.asm.resolve_blobs = capture
        self.real_captured = []
        rorig = self.real.resolve_blobs

        def rcapture(items):
            self.real_captured.append(list(items))
            return rorig(items)
        self.real.resolve_blobs = rcapture

    def assemble(self, src, constants=None, compress=False, markers=None, include_dirs=None):
        """symbolic run. returns (out, labels, constants, blob_items)"""
        Markers.table = dict(markers or {})
        self.captured.clear()
        self.vfs.writes.clear()
        self.vfs.opened.clear()
        labels = {}
        consts = SymConstants(constants or {})
        out = self.asm.assemble(src, constants=consts, labels=labels, compress=compress, include_dirs=include_dirs)
        blobs = self.captured[-1] if self.captured else None
        return out, labels, consts, blobs

    # -- concrete replay on the pristine import --------------------------
    def real_assemble(self, src, constants, compress, markers, model, gap_fill=None, include_dirs=None, cwd=None):
        """runs the pristine assemble() on the concretised inputs in a scratch tree.
        returns ('ok', bytes, labels, constants, chunks) or ('exc', TypeName, message, line)"""
        cm = {k: core.concrete(v, model) for k, v in (markers or {}).items()}

        def spell(name):
            # a marker is 'some spelling of the integer': use different documented spellings for
            # different operands so that equal values are not accidentally equal strings
            v = cm[name]
            if name == 'RB':
                return hex(v)
            if name == 'RC':
                return bin(v)
            return str(v)
        text = asmshim.MARK.sub(lambda m: spell(m.group(1)) if m.group(1) in cm else m.group(0), src)
        cc = {k: core.concrete(v, model) for k, v in (constants or {}).items()}
        root = tempfile.mkdtemp(prefix='bbverif_')
        old = os.getcwd()
        try:
            for path, (kind, content) in self.files.items():
                rp = root + path
                os.makedirs(os.path.dirname(rp), exist_ok=True)
                if kind == 'gap':
                    n = cm[content]
                    with open(rp, 'wb') as f:
                        if gap_fill:
                            f.write(gap_fill(content, n))
                        else:
                            f.truncate(n)
                elif kind == 'text':
                    c2 = asmshim.MARK.sub(lambda m: str(cm[m.group(1)]) if m.group(1) in cm else m.group(0), content)
                    with open(rp, 'w') as f:
                        f.write(c2)
                else:
                    with open(rp, 'wb') as f:
                        f.write(content)
            wd = root + (cwd or self.vfs.cwd)
            os.makedirs(wd, exist_ok=True)
            os.chdir(wd)
            self.real_captured.clear()
            labels, consts = {}, dict(cc)
            if text.startswith('/') and '\n' not in text:
                text = root + text
            idirs = [root + d for d in include_dirs] if include_dirs else include_dirs
            try:
                out = self.real.assemble(text, constants=consts, labels=labels, compress=compress, include_dirs=idirs)
            except Exception as e:
                line = getattr(e, 'line', None)
                lf = getattr(line, 'file', None)
                if isinstance(lf, str) and lf.startswith(root):
                    lf = lf[len(root):]
                return ('exc', type(e).__name__, str(getattr(e, 'message', e)), (lf, getattr(line, 'number', None)))
            chunks = [(b.line.number, bytes(b.data)) for b in self.real_captured[-1]] if self.real_captured else []
            return ('ok', bytes(out), labels, consts, chunks)
        finally:
            os.chdir(old)
            shutil.rmtree(root, ignore_errors=True)


def sym_outcome_concrete(kind, val, model, opaque=None):
    """concretise the symbolic outcome for comparison with real_assemble()"""
    if kind == 'ok':
        out, labels, consts, blobs = val
        return ('ok', concretize(out, model, opaque), {k: core.concrete(v, model) for k, v in labels.items()})
    return ('exc', type(val).__name__)


def outcomes_agree(sym, real):
    if sym[0] != real[0]:
        return False
    if sym[0] == 'exc':
        return sym[1] == real[1]
    return sym[1] == real[1] and sym[2] == real[2]


def zero_fill(marker, n):
    return b'\x00' * n


# ---------------------------------------------------------------------------
# text templates for single instructions
# ---------------------------------------------------------------------------
def templates(insn):
    """[(source text, {operand name: ('const'|'marker', NAME)})]"""
    m, cls = insn.name, insn.cls
    C = lambda n: ('const', n)
    M = lambda n: ('marker', n)
    if not insn.operands:
        return [(m, {})]
    if cls in ('R', 'SH'):
        return [('%s RA, RB, RC' % m, dict(zip(insn.operands, [C('RA'), C('RB'), C('RC')])))]
    if cls in ('I', 'CSR'):
        t = [('%s RA, RB, K' % m, dict(zip(insn.operands, [C('RA'), C('RB'), C('K')])))]
        if cls == 'I' and (m[0] == 'l' or m == 'jalr'):
            t.append(('%s RA K(RB)' % m, dict(zip(insn.operands, [C('RA'), C('RB'), C('K')]))))
        return t
    if cls == 'S':
        return [('%s RA, RB, K' % m, dict(rs1=C('RA'), rs2=C('RB'), imm=C('K'))),
                ('%s RB, K(RA)' % m, dict(rs1=C('RA'), rs2=C('RB'), imm=C('K')))]
    if cls == 'B':
        return [('%s RA, RB, K' % m, dict(rs1=C('RA'), rs2=C('RB'), imm=C('K')))]
    if cls == 'U':
        return [('%s RA, K' % m, dict(rd=C('RA'), imm=C('K')))]
    if cls == 'J':
        return [('%s RA, K' % m, dict(rd=C('RA'), imm=C('K')))]
    if cls == 'FENCE':
        return [('fence @A@ @B@', dict(succ=M('A'), pred=M('B')))]
    if cls == 'A':
        return [('%s RA, RB, RC, @AQ@, @RL@' % m, dict(rd=C('RA'), rs1=C('RB'), rs2=C('RC'), aq=M('AQ'), rl=M('RL')))]
    if cls == 'AL':
        return [('%s RA RB @AQ@ @RL@' % m, dict(rd=C('RA'), rs1=C('RB'), aq=M('AQ'), rl=M('RL')))]
    # RVC
    names = ['RA', 'RB', 'RC']
    mp, parts = {}, []
    i = 0
    for o in insn.operands:
        if o == 'imm':
            mp[o] = C('K')
            parts.append('K')
        else:
            mp[o] = C(names[i])
            parts.append(names[i])
            i += 1
    t = [('%s %s' % (m, ', '.join(parts)), mp)]
    if m == 'c.lw':
        t.append(('c.lw RA, K(RB)', mp))
    if m == 'c.sw':
        t.append(('c.sw RB, K(RA)', mp))
    return t


def all_templates(insn):
    """constants=/alias route and literal-numeral route (@markers)"""
    out = []
    for src, mp in templates(insn):
        out.append((src, mp))
        if any(how == 'const' for how, _ in mp.values()):
            src2 = re.sub(r'\b(RA|RB|RC|K)\b', r'@\1@', src)
            out.append((src2, {o: ('marker', nm) for o, (how, nm) in mp.items()}))
    return out


def declare_text(p, insn, mapping, widths):
    ops = declare(p, insn, widths)
    constants, markers = {}, {}
    for o, (how, nm) in mapping.items():
        (constants if how == 'const' else markers)[nm] = ops[o]
    return ops, constants, markers


def single_word(out, nbytes):
    """the output must be exactly one little-endian integer segment of nbytes"""
    segs = SymBytes.of(out).segs
    if len(segs) == 1 and segs[0].kind == 'int' and segs[0].n == nbytes and segs[0].endian == '<':
        return segs[0].value
    if len(segs) == 1 and segs[0].kind == 'lit' and len(segs[0].data) == nbytes:
        return int.from_bytes(segs[0].data, 'little')
    return None


def text_task(prop, m, widths, compress, known):
    """C01/C02 (bytes == little-endian spec word) and C06 (operand sets) through the text front end"""
    res = TaskResult('text:%s' % m)
    insn = isa.T[m]
    pl = Pipeline()
    prof = common.FuncProfile()
    for ti, (src, mapping) in enumerate(all_templates(insn)):
        x = core.Explorer(timeout_ms=60000)
        n_acc = n_ref = 0

        def fn(p):
            ops, constants, markers = declare_text(p, insn, mapping, widths)
            p.notes.update(ops=ops, constants=constants, markers=markers)
            with prof:
                return pl.assemble(src, constants, compress, markers)

        def report(kind, mdl, what, p):
            ops = p.notes['ops']
            cops = {k: core.concrete(v, mdl) for k, v in ops.items()}
            real = pl.real_assemble(src, p.notes['constants'], compress, p.notes['markers'], mdl)
            legal, dc, word = spec_concrete(insn, cops)
            if kind == 'accepts-illegal':
                repro = real[0] == 'ok' and not legal and not dc
            elif kind == 'refuses-legal':
                repro = real[0] == 'exc' and legal
            else:
                repro = real[0] == 'ok' and (legal or dc) and real[1] != word.to_bytes(insn.bits // 8, 'little')
            if not repro:
                res.inconc('text %s: counterexample %s %r did not reproduce: %r' % (m, kind, cops, real[:2]))
                return
            payload = dict(kind='text', property=prop, mnemonic=m, source=src, operands=cops, violation=kind, what=what,
                           constants={k: core.concrete(v, mdl) for k, v in p.notes['constants'].items()},
                           markers={k: core.concrete(v, mdl) for k, v in p.notes['markers'].items()},
                           compress=compress, real=[real[0], real[1].hex() if real[0] == 'ok' else real[1]],
                           spec_legal=legal, spec_word=word)
            path = common.write_replay(prop, 'text_%s_%d_%s' % (m, ti, kind), payload)
            res['violations'].append(dict(harness='text', mnemonic=m, kind=kind, source=src, operands=cops,
                                          what=what, replay=path))

        for p, kind, val in x.run(fn):
            if kind == 'limit':
                res.inconc('text %s: engine limit: %s' % (m, val))
                continue
            ops = p.notes['ops']
            legal = insn.legal(**ops)
            dc = insn.dontcare(**ops) if insn.dontcare else False
            model = p.witness()
            real = pl.real_assemble(src, p.notes['constants'], compress, p.notes['markers'], model)
            symc = sym_outcome_concrete(kind, val, model)
            if not outcomes_agree(symc, real):
                res.inconc('text %s %r: witness replay mismatch: symbolic %r real %r' % (m, src, symc[:2], real[:2]))
                continue
            res['validated'] += 1
            if len(res['samples']) < 2:
                res['samples'].append(dict(source=src, operands={k: core.concrete(v, model) for k, v in ops.items()},
                                           outcome=[real[0], real[1].hex() if real[0] == 'ok' else real[1]]))
            if kind == 'ok':
                n_acc += 1
                out = val[0]
                if prop == 'C06':
                    kn = [k for k in known if k.get('match', {}).get('mnemonic') == m
                          and k['match'].get('kind') == 'accepts-illegal']
                    excl = Or(legal, dc)
                    for k in kn:
                        excl = Or(excl, region_pred(k['region'], ops))
                    r, mdl = p.sat(Not(excl))
                    if r == 'sat':
                        report('accepts-illegal', mdl, 'program accepted although the operand is outside the documented set', p)
                        res.oblig(False)
                    else:
                        res.oblig(True if r == 'unsat' else None, 'unknown text accept %s' % m)
                    for k in kn:
                        r2, _ = p.sat(And(Not(Or(legal, dc)), region_pred(k['region'], ops)))
                        if r2 == 'sat':
                            res['known'].append(dict(id=k.get('id'), what=k.get('what')))
                else:
                    w = single_word(out, insn.bits // 8)
                    if w is None:
                        r, mdl = p.sat(Or(legal, dc))
                        if r == 'sat':
                            report('wrong-word', mdl, 'output is not one %d-byte little-endian word' % (insn.bits // 8), p)
                            res.oblig(False)
                        else:
                            res.oblig(True if r == 'unsat' else None, 'unknown')
                        continue
                    r, mdl = p.sat(Not(Or(legal, dc)))
                    if r == 'sat':
                        report('accepts-illegal', mdl, 'accepted operands that no encoding of this instruction can carry', p)
                        res.oblig(False)
                    else:
                        res.oblig(True if r == 'unsat' else None, 'unknown text accept %s' % m)
                    r, mdl = p.sat(And(Or(legal, dc), Not(eq_word(w, insn.word(**ops)))))
                    if r == 'sat':
                        report('wrong-word', mdl, 'bytes differ from the little-endian specification word', p)
                        res.oblig(False)
                    else:
                        res.oblig(True if r == 'unsat' else None, 'unknown text word %s' % m)
            else:
                n_ref += 1
                if prop == 'C06':
                    r, mdl = p.sat(legal)
                    if r == 'sat':
                        report('refuses-legal', mdl, 'program refused although the operand is inside the documented set', p)
                        res.oblig(False)
                    else:
                        res.oblig(True if r == 'unsat' else None, 'unknown text refuse %s' % m)
        if n_acc == 0:
            res['vacuity'].append('text %s %r: no accepting path' % (m, src))
        if insn.operands and n_ref == 0:
            res['vacuity'].append('text %s %r: no refusing path' % (m, src))
        res.absorb_stats(x.stats)
    res['functions'] = prof.names()
    return res


# ---------------------------------------------------------------------------
# register spelling table (finite, concrete) - C01 / C13
# ---------------------------------------------------------------------------
ABI = ['zero', 'ra', 'sp', 'gp', 'tp', 't0', 't1', 't2', 's0', 's1', 'a0', 'a1', 'a2', 'a3', 'a4', 'a5',
       'a6', 'a7', 's2', 's3', 's4', 's5', 's6', 's7', 's8', 's9', 's10', 's11', 't3', 't4', 't5', 't6']


def expected_register_spellings():
    t = {}
    for n in range(32):
        t[n] = n
        t[str(n)] = n
        t['x%d' % n] = n
        t[ABI[n]] = n
    t['fp'] = 8
    return t


def regtable_task():
    res = TaskResult('regtable')
    real = asmshim.load_asm_pristine()
    exp = expected_register_spellings()
    got = dict(real.REGISTERS)
    res['paths'] = 1
    res['decisions'] = 1
    bad = []
    for k in exp:       # additional aliases a maintainer may add are not a violation
        if exp[k] != got.get(k, 'missing'):
            bad.append((repr(k), exp[k], got.get(k, 'missing')))
        res.oblig(exp[k] == got.get(k, 'missing'))
    # spellings through the text front end: rd, rs1, rs2 positions and numerals
    addw = isa.T['add']
    spellings = [k for k in exp if isinstance(k, str)] + ['0x%x' % n for n in range(32)] + \
                ['0b%s' % bin(n)[2:] for n in range(32)] + ['0o%o' % n for n in range(32)]
    for s in spellings:
        n = exp[s] if s in exp else int(s, 0)
        for pos in range(3):
            regs = ['x5', 'x6', 'x7']
            regs[pos] = s
            nums = [5, 6, 7]
            nums[pos] = n
            want = z3.simplify(addw.word(rd=nums[0], rs1=nums[1], rs2=nums[2])).as_long().to_bytes(4, 'little')
            try:
                out = bytes(real.assemble('add %s %s %s' % tuple(regs)))
            except Exception as e:
                out = repr(e)
            ok = out == want
            res.oblig(ok)
            res['validated'] += 1
            if not ok:
                bad.append((s, pos, want.hex(), out.hex() if isinstance(out, bytes) else out))
    # mixed spellings of one register in two operands, compression off and on: the compression
    # criteria must see register numbers, not spellings
    npairs = 0
    for n in range(32):
        sp = [str(n), 'x%d' % n, ABI[n], hex(n)] + (['fp'] if n == 8 else [])
        for c in (False, True):
            base = {}
            for form in ('addi %s %s 1', 'add %s %s x9', 'slli %s %s 3', 'andi %s %s 5', 'lw %s 8(%s)'):
                try:
                    base[form] = bytes(real.assemble(form % ('x%d' % n, 'x%d' % n), compress=c))
                except Exception as e:
                    base[form] = repr(e)
                for s1 in sp:
                    for s2 in sp:
                        try:
                            out = bytes(real.assemble(form % (s1, s2), compress=c))
                        except Exception as e:
                            out = repr(e)
                        npairs += 1
                        ok = out == base[form]
                        res.oblig(ok)
                        if not ok and len(bad) < 40:
                            bad.append(('%s (compress=%s)' % (form % (s1, s2), c), n, str(base[form]), str(out)))
    # a label that is spelled like a register name: operands written with that spelling still mean the register
    for n in range(32):
        nm = ABI[n]
        for c in (False, True):
            forms = ['addi x0 x0 0\n' + nm + ':\naddi %s %s 1\nj ' + nm, nm + ':\nadd %s %s x9\nbeq x8 x0 ' + nm,
                     'x%d:\nslli %%s %%s 3\nj x%d' % (n, n)]
            for form in forms:
                try:
                    base = bytes(real.assemble(form % (str(n), str(n)), compress=c))
                except Exception as e:
                    base = repr(e)[:120]
                for s1 in (nm, 'x%d' % n):
                    try:
                        out = bytes(real.assemble(form % (s1, s1), compress=c))
                    except Exception as e:
                        out = repr(e)[:120]
                    npairs += 1
                    ok = out == base
                    res.oblig(ok)
                    if not ok and len(bad) < 40:
                        bad.append(('%s (compress=%s)' % ((form % (s1, s1)).replace('\n', ' / '), c), n, str(base), str(out)))
    res['validated'] += npairs
    # integers in decimal, hex or binary (finite table, compared concretely): every operand
    # position that takes a number, negative values included
    forms = [('addi x5, x6, %s', [-16, 12, 0, 2047, -2048]), ('beq x5, x6, %s', [-16, 12, 4094, -4096]),
             ('bne x8, x0, %s', [-16, 254]), ('jal x1, %s', [-16, 2048, -1048576]), ('jal x0, %s', [-18, 2046]),
             ('lui x5, %s', [1, 524287, 0xfffff]), ('slli x5, x6, %s', [3, 31]), ('lw x5, %s(x6)', [-8, 8]),
             ('sw x5, %s(x6)', [-8, 2047]), ('db %s', [-5, 200]), ('dw %s', [-5, 0x20000000]), ('bytes %s 1', [-5, 200]),
             ('shorts 1 %s', [-300, 60000]), ('align %s', [4, 8]), ('pack <h %s', [-300]), ('K = %s + 1\ndw K', [-7, 4096]),
             ('csrrw x5, x6, %s', [0x305, -1]), ('c.addi x9, %s', [-5, 7]), ('c.j %s', [-6, 64]), ('li x5, %s', [-70000, 0xffffffff]),
             ('fence %s 3', [15]), ('amoadd.w x5 x6 x7 %s 0', [1]), ('dw %%position(L, %s)\nL:', [-4, 0x8000000])]
    nnum = 0
    for form, values in forms:
        for v in values:
            neg = v < 0
            a = abs(v)
            sp = {'hex': ('-' if neg else '') + hex(a), 'bin': ('-' if neg else '') + bin(a), 'HEX': ('-' if neg else '') + '0x' + format(a, 'X')}
            for c in (False, True):
                try:
                    base = bytes(real.assemble(form % str(v), compress=c))
                except Exception as e:
                    base = repr(e)[:80]
                for kind, text in sp.items():
                    try:
                        out = bytes(real.assemble(form % text, compress=c))
                    except Exception as e:
                        out = repr(e)[:80]
                    nnum += 1
                    ok = out == base
                    res.oblig(ok)
                    if not ok and len(bad) < 40:
                        bad.append(('%s (compress=%s)' % ((form % text).replace('\n', ' / '), c), v, str(base), str(out)))
    # instruction mnemonics in upper / mixed case mean the same as in lower case, in every operand syntax
    # (directive names are left out: `DB 5` ends in a raw KeyError, which no property covers - see DESIGN 9.5)
    lines = ['addi x5, x6, 7', 'lw x5, 8(x6)', 'lw x5, x6, 8', 'lhu x5, 6(9)', 'lbu x7, 1(x8)', 'sw x5, 8(x6)', 'sb x5, x6, 1', 'jalr x1, 4(x5)', 'jalr x5',
             'beq x5, x6, 8', 'jal x1, 16', 'lui x5, 0x12', 'li x5, 100000', 'mv x8, x9', 'ret', 'c.lw x8, 4(x9)', 'c.addi x9, 3', 'amoadd.w x5 x6 x7 1 0',
             'csrrw x5, x6, 0x305', 'fence', 'BASE = x6\nlw x5, 8(BASE)', 'BASE = 6\nlhu x5, 2(BASE)']
    for text in lines:
        first, rest = text.rsplit('\n', 1) if '\n' in text else ('', text)
        mn, _, ops = rest.partition(' ')
        for c in (False, True):
            try:
                base = bytes(real.assemble(text, compress=c))
            except Exception as e:
                base = repr(e)[:80]
            for variant in (mn.upper(), mn.capitalize()):
                src = (first + '\n' if first else '') + variant + (' ' + ops if ops else '')
                try:
                    out = bytes(real.assemble(src, compress=c))
                except Exception as e:
                    out = repr(e)[:80]
                nnum += 1
                ok = out == base
                res.oblig(ok)
                if not ok and len(bad) < 40:
                    bad.append(('%s (compress=%s)' % (src.replace('\n', ' / '), c), 0, str(base), str(out)))
    # expressions written directly as operands: every documented operator, compared with the literal value
    exprs = {'100 // 8': 12, '7 % 4': 3, '1 << 4': 16, '(2 + 3) * 4': 20, '0x10 | 3': 19, '~0 & 0xff': 255, '-(-5)': 5, '0x7f ^ 0x0f': 112,
             '1000 >> 3': 125, '3 - 10': -7, '2 * 3 + 4 * 5': 26, '2 * (3 + 4) * 5': 70, '100 // 8 // 2': 6, '-7 // 2': -4, '-7 % 4': 1,
             "'A' + 1": 66, '0b101 + 0x5 + 5': 15}
    for form in ('addi x5, x0, %s', 'lw x5, x6, %s', 'sw x5, x6, %s', 'dw %s', 'K = %s\ndb K & 0xff', 'li x7, %s', 'pack <h %s', 'c.li x8, (%s) & 15'):
        for text, v in exprs.items():
            for c in (False, True):
                try:
                    base = bytes(real.assemble(form % str(v), compress=c))
                except Exception as e:
                    base = repr(e)[:80]
                try:
                    out = bytes(real.assemble(form % text, compress=c))
                except Exception as e:
                    out = repr(e)[:80]
                nnum += 1
                ok = out == base
                res.oblig(ok)
                if not ok and len(bad) < 40:
                    bad.append(('%s (compress=%s)' % ((form % text).replace('\n', ' / '), c), v, str(base), str(out)))
    res['validated'] += nnum
    res['samples'].append(dict(register_spellings=len(spellings), table_keys=len(got), mixed_spelling_programs=npairs, numeral_spelling_programs=nnum))
    for b in bad[:5]:
        path = common.write_replay('C01', 'regtable_%s' % str(b[0]), dict(kind='regtable', entry=list(map(str, b))))
        res['violations'].append(dict(harness='regtable', kind='register-spelling', entry=list(map(str, b)), replay=path))
    return res


# ---------------------------------------------------------------------------
# %hi/%lo pairs through the pipeline (C07 b)
# ---------------------------------------------------------------------------
HILO_TEMPLATES = [
    # (source, files, value kind)
    ('lui RA, %hi(V)\naddi RA, RA, %lo(V)', {}, 'V', 'I'),
    ('lui RA %hi V\nlw RB, RA, %lo V', {}, 'V', 'I'),
    ('lui RA, %hi(V)\nsw RA, RB, %lo(V)', {}, 'V', 'S'),
    ('auipc RA, %hi(V)\naddi RA, RA, %lo(V)', {}, 'V', 'I'),
    ('lui RA, %hi(L)\naddi RA, RA, %lo(L)\ninclude_bytes G0.bin\nL:', {'/w/G0.bin': ('gap', 'G0')}, 'L', 'I'),
    ('lui RA, %hi(%position(L, V))\nlw RB, RA, %lo(%position(L, V))\ninclude_bytes G0.bin\nL:\naddi x0 x0 0',
     {'/w/G0.bin': ('gap', 'G0')}, 'P', 'I'),
    ('auipc RA, %hi(V)\njalr RB, RA, %lo(V)', {}, 'V', 'I'),
    # operands with grouping of their own: the modifier applies to the value of the whole expression
    ('lui RA, %hi(V + (W << 7))\naddi RA, RA, %lo(V + (W << 7))', {}, 'E1', 'I'),
    ('lui RA, %hi(-(V + 1))\nlw RB, RA, %lo(-(V + 1))', {}, 'E2', 'I'),
    ('lui RA, %hi((V + W) * 2)\nsw RA, RB, %lo((V + W) * 2)', {}, 'E3', 'S'),
    ('lui RA, %hi(%position(L, V + (W << 11)))\nlw RB, RA, %lo(%position(L, V + (W << 11)))\ninclude_bytes G0.bin\nL:\naddi x0 x0 0',
     {'/w/G0.bin': ('gap', 'G0')}, 'P2', 'I'),
]
HILO_EXPR = {
    'E1': lambda V, W, base: V + (W << 7),
    'E2': lambda V, W, base: -(V + 1),
    'E3': lambda V, W, base: (V + W) * 2,
    'P2': lambda V, W, base: base + V + (W << 11),
}


def hilo_pairs_task(k, bits):
    from .kernels import _pair_rebuilds
    src, files, vkind, fmt = HILO_TEMPLATES[k]
    res = TaskResult('hilo-pair:%d' % k)
    pl = Pipeline(files)
    x = core.Explorer(timeout_ms=60000)
    prof = common.FuncProfile()
    n_acc = 0

    def fn(p):
        consts = dict(RA=p.int('RA', lo=0, hi=31), RB=p.int('RB', lo=0, hi=31))
        markers = {}
        if vkind in ('V', 'P') or vkind in HILO_EXPR:
            consts['V'] = p.int('V', bits)
        if vkind in HILO_EXPR:
            consts['W'] = p.int('W', lo=0, hi=31)
        if files:
            markers['G0'] = p.int('G0', lo=0, hi=(1 << 23))
        p.notes.update(constants=consts, markers=markers)
        with prof:
            return pl.assemble(src, consts, False, markers)

    for p, kind, val in x.run(fn):
        if kind == 'limit':
            res.inconc('hilo pair %d: %s' % (k, val))
            continue
        model = p.witness()
        real = pl.real_assemble(src, p.notes['constants'], False, p.notes['markers'], model)
        symc = sym_outcome_concrete(kind, val, model, lambda fid, off, n: b'\x00' * n)
        if not outcomes_agree(symc, real):
            res.inconc('hilo pair %d: witness replay mismatch %r vs %r' % (k, symc[:1], real[:2]))
            continue
        res['validated'] += 1
        if kind != 'ok':
            # a refusal is only acceptable for the jalr pair with an odd low part
            if k == 6:
                continue
            cc = {n: core.concrete(v, model) for n, v in {**p.notes['constants'], **p.notes['markers']}.items()}
            path = common.write_replay('C07', 'pair_%d_refused' % k, dict(kind='hilo-pair', source=src, inputs=cc, real=list(real[:3])))
            res['violations'].append(dict(harness='hilo-pair', template=src, kind='pair-refused', inputs=cc, real=list(real[:3]), replay=path))
            res.oblig(False)
            continue
        n_acc += 1
        out, labels, consts, blobs = val
        segs = SymBytes.of(out).segs
        w_u, w_i = segs[0].value, segs[1].value
        if vkind == 'V':
            target = p.notes['constants']['V']
        elif vkind == 'L':
            target = 8 + p.notes['markers']['G0']
        elif vkind in HILO_EXPR:
            target = HILO_EXPR[vkind](p.notes['constants']['V'], p.notes['constants']['W'], (8 + p.notes['markers']['G0']) if files else 0)
        else:
            target = p.notes['constants']['V'] + 8 + p.notes['markers']['G0']
        if len(res['samples']) < 2:
            res['samples'].append(dict(source=src, witness={n: core.concrete(v, model) for n, v in {**p.notes['constants'], **p.notes['markers']}.items()},
                                       bytes=real[1][:8].hex()))
        r, mdl = p.sat(Not(_pair_rebuilds(w_u, w_i, target, fmt)))
        if r == 'sat':
            cc = {n: core.concrete(v, mdl) for n, v in {**p.notes['constants'], **p.notes['markers']}.items()}
            real = pl.real_assemble(src, p.notes['constants'], False, p.notes['markers'], mdl)
            tv = core.concrete(target, mdl)
            ok = False
            if real[0] == 'ok':
                wu = int.from_bytes(real[1][0:4], 'little')
                wi = int.from_bytes(real[1][4:8], 'little')
                if fmt == 'I':
                    im = (wi >> 20) - (4096 if wi >> 31 else 0)
                else:
                    im = ((wi >> 25) << 5) | ((wi >> 7) & 31)
                    im -= 4096 if im & 0x800 else 0
                ok = (((wu >> 12) << 12) + im - tv) % (1 << 32) == 0
            if not ok:
                path = common.write_replay('C07', 'pair_%d' % k, dict(kind='hilo-pair', source=src, inputs=cc, target=tv, real=[real[0], real[1].hex() if real[0] == 'ok' else real[1]]))
                res['violations'].append(dict(harness='hilo-pair', template=src, kind='pair-does-not-rebuild', inputs=cc, target=tv, replay=path))
                res.oblig(False)
            else:
                res.inconc('hilo pair %d counterexample did not reproduce' % k)
        else:
            res.oblig(True if r == 'unsat' else None, 'unknown hilo pair %d' % k)
    if n_acc == 0:
        res['vacuity'].append('hilo pair %d: no accepting path' % k)
    res.absorb_stats(x.stats)
    res['functions'] = prof.names()
    return res


# ---------------------------------------------------------------------------
# %hi/%lo pairs executed (C07 c): both modes, any instruction lengths
# ---------------------------------------------------------------------------
def _split_insns(data):
    out, i = [], 0
    while i + 2 <= len(data):
        n = 4 if data[i] & 3 == 3 else 2
        out.append((n, int.from_bytes(data[i:i + n], 'little')))
        i += n
    return out


def _pair_effect(insns, ra, rb, target, what, pc0):
    """z3 Bool: executing the instructions of the pair from pc0 addresses exactly target"""
    from spec import sem
    BV = z3.BitVecVal
    regs0 = z3.Array('regs0', z3.BitVecSort(5), z3.BitVecSort(32))
    regs, pc = regs0, pc0
    ok = []
    last = None
    before = regs0
    for k, (n, v) in enumerate(insns):
        before = regs
        w = sem.word_of(v, n)
        if n == 2:
            ok.append(sem.legal_c(v.bv(16) if isinstance(v, SymInt) else BV(v, 16)))
        e = sem.step(w, regs, pc, n)
        ok.append(z3.Not(e.opaque))
        if k < len(insns) - 1:
            ok.append(z3.Not(e.jump))
            ok.append(e.mem_kind == 0)
        last = e
        regs, pc = sem.execute(e, regs, pc, n)
    t = target
    if what in ('reg', 'reg2'):
        ok.append(sem.rd_(regs, ra) == t)
        ok.append(last.mem_kind == 0)
    elif what == 'load':
        ok += [last.mem_kind == 1, last.mem_addr == t, last.mem_rd == rb]
    elif what == 'store':
        ok += [last.mem_kind == 2, last.mem_addr == t, last.mem_val == sem.rd_(before, rb)]
    elif what == 'jump':
        ok += [last.is_jalr, pc == (t & BV(0xfffffffe, 32))]
    return z3.And(*ok)


# (source, files, value kind, what the pair does, pc-relative?, line of the label)
HILO_EXEC = [
    ('lui RA, %hi(V)\naddi RA, RA, %lo(V)', {}, 'V', 'reg', False, None),
    ('lui RA %hi V\nlw RB, RA, %lo V', {}, 'V', 'load', False, None),
    ('lui RA, %hi(V)\nsw RA, RB, %lo(V)', {}, 'V', 'store', False, None),
    ('auipc RA, %hi(V)\naddi RA, RA, %lo(V)', {}, 'V', 'reg', True, None),
    ('lui RA, %hi(L)\naddi RA, RA, %lo(L)\ninclude_bytes G0.bin\nL:', {'/w/G0.bin': ('gap', 'G0')}, 'L', 'reg', False, 4),
    ('lui RA, %hi(%position(L, V))\nlw RB, RA, %lo(%position(L, V))\ninclude_bytes G0.bin\nL:\naddi x0 x0 0',
     {'/w/G0.bin': ('gap', 'G0')}, 'P', 'load', False, 4),
    ('auipc RA, %hi(V)\njalr RB, RA, %lo(V)', {}, 'V', 'jump', True, None),
    ('addi x0 x0 0\nlui RA, %hi(V)\nlbu RB, RA, %lo(V)', {}, 'V', 'load', False, None),
    ('K = V\nlui RA, %hi(K)\naddi RA, RA, %lo(K)', {}, 'V', 'reg', False, None),
    # the pair goes through a scratch register: lui into RB, addi from RB into RA (RA may be sp)
    ('lui RB, %hi(V)\naddi RA, RB, %lo(V)', {}, 'V', 'reg2', False, None),
]


def hilo_exec_task(k, bits, compress):
    from .pseudo import line_insns, offset_of_line
    src, files, vkind, what, pcrel, lline = HILO_EXEC[k]
    lines = src.split('\n')
    first = next(i for i, l in enumerate(lines, 1) if l.startswith(('lui', 'auipc')))
    tag = 'hilo-exec:%d:%s' % (k, 'c' if compress else 'n')
    res = TaskResult(tag)
    pl = Pipeline(files)
    x = core.Explorer(timeout_ms=60000)
    prof = common.FuncProfile()
    n_acc = 0
    BV = z3.BitVecVal
    base = z3.BitVec('loadbase', 32)

    def bv32(v):
        return v.bv(32) if isinstance(v, SymInt) else BV(v, 32)

    def fn(p):
        consts = dict(RA=p.int('RA', lo=1, hi=31), RB=p.int('RB', lo=0, hi=31))
        markers = {}
        if vkind in ('V', 'P'):
            consts['V'] = p.int('V', bits)
        if files:
            markers['G0'] = p.int('G0', lo=0, hi=(1 << 23))
        if what == 'reg2':
            p.assume(consts['RB'] != 0)      # the scratch register must be able to hold the upper part
        if what == 'load':
            p.assume(consts['RB'] != 0)      # a load into x0 is a hint; its compressed forms are excluded anyway
        p.notes.update(constants=consts, markers=markers)
        with prof:
            return pl.assemble(src, consts, compress, markers)

    def formula(insns, start, cvals, label_off):
        pc0 = base + bv32(start)
        if vkind == 'V':
            t = bv32(cvals['V'])
        elif vkind == 'L':
            t = bv32(label_off)
        else:
            t = bv32(cvals['V']) + bv32(label_off)
        if pcrel:
            t = t + pc0
        ra = z3.Extract(4, 0, bv32(cvals['RA']))
        rb = z3.Extract(4, 0, bv32(cvals['RB']))
        return z3.And(z3.BoolVal(len(insns) >= 2), _pair_effect(insns, ra, rb, t, what, pc0))

    def concrete_good(mdl, p):
        cc = {n: core.concrete(v, mdl) for n, v in {**p.notes['constants'], **p.notes['markers']}.items()}
        real = pl.real_assemble(src, p.notes['constants'], compress, p.notes['markers'], mdl)
        if real[0] != 'ok':
            return None, cc, real
        # locate the pair in the real output: bytes before the first pair line are 4-byte nops / nothing
        pre = 4 * (first - 1) if not compress else 2 * (first - 1)
        if lines[0].startswith('K ='):
            pre = 0
        data = real[1]
        lab = real[2].get('L') if isinstance(real[2], dict) else None
        end = lab - cc.get('G0', 0) if lab is not None else len(data)
        if vkind == 'P':
            end = lab - cc.get('G0', 0)
        insns = _split_insns(data[pre:end])
        f = formula(insns, pre, cc, lab if lab is not None else 0)
        s = z3.Solver()
        s.add(z3.Extract(0, 0, base) == 0, z3.Not(f))
        return s.check() == z3.unsat, cc, real

    for p, kind, val in x.run(fn):
        if kind == 'limit':
            res.inconc('%s: %s' % (tag, val))
            continue
        model = p.witness()
        real = pl.real_assemble(src, p.notes['constants'], compress, p.notes['markers'], model)
        symc = sym_outcome_concrete(kind, val, model, lambda fid, off, n: b'\x00' * n)
        if not outcomes_agree(symc, real):
            res.inconc('%s: witness replay mismatch %r vs %r' % (tag, symc[:1], real[:2]))
            continue
        res['validated'] += 1
        if kind != 'ok':
            if what == 'jump':
                continue                     # an odd low part cannot be encoded in jalr
            cc = {n: core.concrete(v, model) for n, v in {**p.notes['constants'], **p.notes['markers']}.items()}
            path = common.write_replay('C07', tag + '_refused', dict(kind='program', property='C07', source=src, constants={a: b for a, b in cc.items() if a != 'G0'},
                                                                       gap_bytes=cc.get('G0'), compress=compress, what='%%hi/%%lo pair refused: %r' % (real[1:3],)))
            res['violations'].append(dict(harness='hilo-exec', template=src, kind='pair-refused', compress=compress, inputs=cc, real=list(real[:3]), replay=path))
            res.oblig(False)
            continue
        n_acc += 1
        out, labels, consts, blobs = val
        insns = []
        start = None
        for ln in (first, first + 1):
            ii, st = line_insns(blobs, ln)
            if start is None:
                start = st
            insns += ii
        if not insns or any(n is None for n, _ in insns):
            res.inconc('%s: pair did not come out as instruction words' % tag)
            continue
        lab = offset_of_line(blobs, lline) if lline else 0
        f = formula(insns, start, p.notes['constants'], lab)
        r, mdl = p.sat(SymBool(z3.And(z3.Extract(0, 0, base) == 0, z3.Not(f))))
        if r == 'sat':
            good, cc, real = concrete_good(mdl, p)
            if good is None or good:
                res.inconc('%s: counterexample %r did not reproduce on the real code' % (tag, cc))
            else:
                path = common.write_replay('C07', tag, dict(kind='program', property='C07', source=src, constants={a: b for a, b in cc.items() if a != 'G0'},
                                                            gap_bytes=cc.get('G0'), compress=compress,
                                                            what='the pair does not address the value: bytes %s' % real[1][:12].hex()))
                res['violations'].append(dict(harness='hilo-exec', template=src, kind='pair-does-not-address-value', compress=compress, inputs=cc,
                                              bytes=real[1][:12].hex(), replay=path))
                res.oblig(False)
        else:
            res.oblig(True if r == 'unsat' else None, 'unknown %s' % tag)
    if n_acc == 0:
        res['vacuity'].append('%s: no accepting path' % tag)
    res.absorb_stats(x.stats)
    res['functions'] = prof.names()
    return res


# ---------------------------------------------------------------------------
# several instructions whose register operands are a mix of alias constants and literals (C01 / C11):
# every emitted word must name the registers its own line names
# ---------------------------------------------------------------------------
ALIAS_PROGRAMS = [
    # (lines, per line: (format, [operand names in field order rd, rs1, rs2]))
    (['add A, @L1@, @L2@', 'addi @L3@, B, 5', 'sub @L4@, @L5@, C', 'sw B, @L6@, 8', 'xor @L7@, @L8@, @L9@', 'add @L1@, A, B'],
     [('R', ['A', 'L1', 'L2']), ('I', ['L3', 'B']), ('R', ['L4', 'L5', 'C']), ('S', ['B', 'L6']), ('R', ['L7', 'L8', 'L9']), ('R', ['L1', 'A', 'B'])]),
    (['addi A, x0, 1', 'addi @L1@, B, 2', 'lw @L2@, 4(C)', 'lw C, 8(@L3@)', 'and A, B, C', 'or @L4@, @L5@, A'],
     [('I', ['A', 0]), ('I', ['L1', 'B']), ('I', ['L2', 'C']), ('I', ['C', 'L3']), ('R', ['A', 'B', 'C']), ('R', ['L4', 'L5', 'A'])]),
    (['mv A, @L1@', 'mv @L2@, B', 'add @L3@, @L4@, @L5@', 'sltu A, @L6@, C', 'slli @L7@, B, 3'],
     [('I', ['A', 'L1']), ('I', ['L2', 'B']), ('R', ['L3', 'L4', 'L5']), ('R', ['A', 'L6', 'C']), ('I', ['L7', 'B'])]),
    (['mv A, @L1@', 'not @L2@, B', 'neg C, @L3@', 'seqz @L4@, A', 'snez B, @L5@', 'mv @L6@, C', 'sltz A, B', 'not @L7@, @L8@'],
     [('I', ['A', 'L1']), ('I', ['L2', 'B']), ('R', ['C', 0, 'L3']), ('I', ['L4', 'A']), ('R', ['B', 0, 'L5']), ('I', ['L6', 'C']),
      ('R', ['A', 'B', 0]), ('I', ['L7', 'L8'])]),
]


def alias_program_task(k, compress):
    lines, fields = ALIAS_PROGRAMS[k]
    src = '\n'.join(lines)
    tag = 'alias-program:%d:%s' % (k, 'c' if compress else 'n')
    res = TaskResult(tag)
    pl = Pipeline()
    prof = common.FuncProfile()
    x = core.Explorer(timeout_ms=60000, max_paths=3000)
    n_ok = 0
    from .pseudo import line_insns
    from spec import sem

    def fn(p):
        consts = {n: p.int(n, lo=0, hi=31) for n in 'ABC'}
        markers = {'L%d' % i: p.int('L%d' % i, lo=0, hi=31) for i in range(1, 10) if '@L%d@' % i in src}
        p.notes.update(constants=consts, markers=markers)
        with prof:
            return pl.assemble(src, consts, compress, markers)

    def val_of(p, name):
        if name == 0:
            return z3.BitVecVal(0, 5)
        v = p.notes['constants'].get(name)
        if v is None:
            v = p.notes['markers'][name]
        return z3.Extract(4, 0, v.bv(8))

    def formula(p, per_line):
        conds = []
        for (fmt, names), insns in zip(fields, per_line):
            if len(insns) != 1 or insns[0][0] is None:
                conds.append(z3.BoolVal(False))
                continue
            n, v = insns[0]
            w = sem.word_of(v, n)
            if n == 2:
                conds.append(sem.legal_c(v.bv(16) if isinstance(v, SymInt) else z3.BitVecVal(v, 16)))
            rd, rs1, rs2 = z3.Extract(11, 7, w), z3.Extract(19, 15, w), z3.Extract(24, 20, w)
            if fmt == 'R':
                conds += [rd == val_of(p, names[0]), rs1 == val_of(p, names[1]), rs2 == val_of(p, names[2])]
            elif fmt == 'I':
                conds += [rd == val_of(p, names[0]), rs1 == val_of(p, names[1])]
            else:       # S: 'sw base, src, imm' in this assembler: rs1 = first operand, rs2 = second
                conds += [rs1 == val_of(p, names[0]), rs2 == val_of(p, names[1])]
        return z3.And(*conds)

    for p, kind, val in x.run(fn):
        if kind == 'limit':
            res.inconc('%s: %s' % (tag, val))
            continue
        model = p.witness()
        real = pl.real_assemble(src, p.notes['constants'], compress, p.notes['markers'], model)
        symc = sym_outcome_concrete(kind, val, model)
        if not outcomes_agree(symc, real):
            res.inconc('%s: witness replay mismatch %r vs %r' % (tag, symc[:2], real[:2]))
            continue
        res['validated'] += 1
        cc = lambda mdl: {n: core.concrete(v, mdl) for n, v in {**p.notes['constants'], **p.notes['markers']}.items()}
        if kind != 'ok':
            path = common.write_replay('C01', tag + '_refused', dict(kind='program', property='C01', source=src, constants=cc(model), compress=compress,
                                                                       what='refused: %r' % (real[1:3],)))
            res['violations'].append(dict(harness='alias-program', kind='refused', source=src, inputs=cc(model), compress=compress, real=list(real[1:3]), replay=path))
            res.oblig(False)
            continue
        n_ok += 1
        out, labels, consts, blobs = val
        per_line = [line_insns(blobs, i)[0] for i in range(1, len(lines) + 1)]
        if len(res['samples']) < 1:
            res['samples'].append(dict(source=lines, witness=cc(model), bytes=real[1].hex()))
        r, mdl = p.sat(z3.Not(formula(p, per_line)))
        if r == 'sat':
            inp = cc(mdl)
            rr = pl.real_assemble(src, p.notes['constants'], compress, p.notes['markers'], mdl)
            good = False
            if rr[0] == 'ok':
                words = _split_insns(rr[1])
                good = len(words) == len(lines)
                if good:
                    for (fmt, names), (n, v) in zip(fields, words):
                        w = z3.simplify(sem.word_of(v, n))
                        w = w.as_long()
                        rd, rs1, rs2 = (w >> 7) & 31, (w >> 15) & 31, (w >> 20) & 31
                        exp = [0 if nm == 0 else inp[nm] for nm in names]
                        got = [rd, rs1, rs2] if fmt == 'R' else ([rd, rs1] if fmt == 'I' else [rs1, rs2])
                        if got != exp:
                            good = False
            if good:
                res.inconc('%s: counterexample %r did not reproduce' % (tag, inp))
            else:
                path = common.write_replay('C01', tag, dict(kind='program', property='C01', source=src, constants=inp, compress=compress,
                                                            what='an instruction names other registers than its source line: %s' % (rr[1].hex() if rr[0] == 'ok' else rr[1:3],)))
                res['violations'].append(dict(harness='alias-program', kind='wrong-registers', source=src, inputs=inp, compress=compress, replay=path))
                res.oblig(False)
        else:
            res.oblig(True if r == 'unsat' else None, 'unknown %s' % tag)
    if n_ok == 0:
        res['vacuity'].append('%s: no accepting path' % tag)
    res.absorb_stats(x.stats)
    res['functions'] = prof.names()
    return res

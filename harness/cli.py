"""C17: the real asm.cli_main() in-process over a virtual file system that already holds old
output / label / hex files; program operands symbolic so that every pass can fail."""
import re
import sys
import types

import z3

from symx import core, asmshim, vfs as vfsmod
from symx.core import SymInt, SymBool, And, Or, Not
from symx.symbytes import SymBytes, SymByteArray, concretize
from symx.asmshim import Markers, Formatted
from . import common
from .common import TaskResult
from .layout import _same_seg

OLD = {'/proj/run/bb.out': b'OLD-BINARY', '/proj/run/out.bin': b'OLD-OUT', '/proj/run/labels.txt': 'old 0x00000000\n',
       '/proj/run/bb.out.hex': ':OLDHEX\n', '/proj/run/out.bin.hex': ':OLDHEX2\n'}

# programs: K symbolic; which pass refuses depends on K
PROGRAMS = {
    'range': 'start:\naddi x1, x0, K\nj start\nend:',                       # resolve_instructions
    'li_label': 'start:\nli x5, K\nbeq x5 x0 start\ncall far\ndb 1\nalign 4\nfar:\ndw far',
    'data': 'd:\ndb K\nbytes 1 2\nalign 2\ne:',                                 # resolve_packs
    'undefined': 'a:\naddi x1, x0, K\naddi x2, x0, NOPE',                      # resolve_immediates
    'parse': 'a:\naddi x1, x0, K\nfrobnicate',                                  # parse_item
    'const': 'A = K + \nb:',                                                    # resolve_constants
    'include_missing': 'a:\naddi x1, x0, K\ninclude gone.asm',
    'included': 'a:\ninclude inc/part.asm\nj a',
    'ok_only': 'a:\nb:\naddi x1, x0, 5\nc:\nli x6, K',
    'nolabels': 'addi x1, x0, 5\nli x6, K\ndw 7',
    'needs_i': 'a:\ninclude part.asm\nj a',
    'golden_align': 'li a0 1\nmv a1 a0\nret\nalign 4\ntable:\ndw 0x11223344\nend:',
    'nested_i': 'a:\ninclude drivers/uart.asm\nj a',
    'own_dir_i': 'a:\ninclude ../lib/util.asm\nj a',
    'range_long': 'start:\naddi x1, x0, K\nj start\nend:\ndw 7\ndw 8',
    'labels_only': 'a:\nb:',
    # the included file lies in a deep tree (its path is longer than any single file name may be) and includes a sibling
    'deep_i': 'a:\ninclude DEEP/mod.asm\nj a',
    # a call beyond the reach of jal (auipc+jalr), then labelled instructions that have 16-bit forms
    'golden_far': 'start:\ncall far\nloop:\naddi a0, a0, -1\nbnez a0, loop\nret\ninclude_bytes big.bin\nfar:\nret',
}
FAR_N = 1 << 20
BLOBS = {'/proj/src/big.bin': bytes(FAR_N)}
# histories: the same command line run twice over changing sources (re-assembling to the same paths);
# everything is judged after the last run
HISTORIES = {
    'shrink': ('range_long', 'range'),
    'grow': ('range', 'range_long'),
    'same': ('range', 'range'),
    'to_empty': ('range_long', 'labels_only'),
}
DEEP = '/'.join('level%d_%s' % (i, 'x' * 40) for i in range(7))      # 7 components, 335 characters
PROGRAMS['deep_i'] = PROGRAMS['deep_i'].replace('DEEP', DEEP)
INC = {'/proj/src/' + DEEP + '/mod.asm': 'mod:\ninclude regs.asm\naddi x3, x0, K',
       '/proj/src/' + DEEP + '/regs.asm': 'REG = 4\naddi x4, x0, REG',
       '/proj/run/regs.asm': 'REG = 6\naddi x6, x0, REG\ndw 2',     # in the working directory: never searched
       '/proj/src/inc/part.asm': 'part:\naddi x3, x0, K\ndw part',
       '/proj/run/zinc/part.asm': 'zpart:\naddi x3, x0, K',
       '/proj/run/ainc/part.asm': 'apart:\naddi x4, x0, K\naddi x0, x0, 0',
       # reached through -i ../vendor; its nested include names a sibling that also exists next to main.asm
       '/proj/vendor/drivers/uart.asm': 'uart:\ninclude regs.asm\naddi x3, x0, K',
       '/proj/vendor/drivers/regs.asm': 'REG = 4\naddi x4, x0, REG',
       '/proj/src/regs.asm': 'REG = 5\naddi x5, x0, REG\ndw 1',
       # -i names the directory of the input file itself; a file in another directory needs it for its own include
       '/proj/lib/util.asm': 'util:\ninclude common.asm\naddi x3, x0, K',
       '/proj/src/common.asm': 'COMMON = 0x55\naddi x4, x0, COMMON',
       '/proj/lib/common.asm': 'COMMON = 0x2a\naddi x4, x0, COMMON\ndw 1'}
# programs whose bytes and label table are written out by hand from the ISA encodings (spec/isa.py agrees, see
# _check_golden): an oracle for the files that does not come from the assembler under test
GOLDEN = {
    'golden_align': {False: ('13051000' '93050500' '67800000' '44332211', {'table': 12, 'end': 16}),
                     True: ('0545' 'aa85' '8280' '0000' '44332211', {'table': 8, 'end': 12})},
    'golden_far': None,     # built from spec/isa.py by _check_golden (1 MiB of zeros in the middle)
}


def _check_golden():
    from spec import isa
    from .enc import spec_concrete

    def w(m, **ops):
        legal, dc, word = spec_concrete(isa.T[m], ops)
        assert legal
        return word.to_bytes(isa.T[m].bits // 8, 'little').hex()
    assert GOLDEN['golden_align'][False][0] == w('addi', rd=10, rs1=0, imm=1) + w('addi', rd=11, rs1=10, imm=0) + w('jalr', rd=0, rs1=1, imm=0) + '44332211'
    if GOLDEN['golden_far'] is None:
        g = {}
        for comp in (False, True):
            v = (14 if comp else 20) + FAR_N         # offset of far:, also the distance of the call at offset 0
            hi = (v + 0x800) >> 12
            head = w('auipc', rd=1, imm=hi) + w('jalr', rd=1, rs1=1, imm=v - (hi << 12))
            if comp:
                body, tail = w('c.addi', rd=10, imm=-1) + w('c.bnez', rs1=10, imm=-2) + w('c.jr', rs1=1), w('c.jr', rs1=1)
            else:
                body, tail = w('addi', rd=10, rs1=10, imm=-1) + w('bne', rs1=10, rs2=0, imm=-4) + w('jalr', rd=0, rs1=1, imm=0), w('jalr', rd=0, rs1=1, imm=0)
            g[comp] = (head + body + '00' * FAR_N + tail, {'start': 0, 'loop': 8, 'far': v})
        GOLDEN['golden_far'] = g
    assert GOLDEN['golden_align'][True][0] == w('c.li', rd=10, imm=1) + w('c.mv', rd=11, rs2=10) + w('c.jr', rs1=1) + '0000' + '44332211'


# (program, option set) -> the program with its includes spliced in by hand (the documented search decides which file)
SPLICED = {
    ('deep_i', 'o'): 'a:\nmod:\nREG = 4\naddi x4, x0, REG\naddi x3, x0, K\nj a',
    ('own_dir_i', 'i_src'): 'a:\nutil:\nCOMMON = 0x55\naddi x4, x0, COMMON\naddi x3, x0, K\nj a',
    ('nested_i', 'i_vendor'): 'a:\nuart:\nREG = 4\naddi x4, x0, REG\naddi x3, x0, K\nj a',
    ('included', 'o'): 'a:\npart:\naddi x3, x0, K\ndw part\nj a',
    ('included', 'o_l'): 'a:\npart:\naddi x3, x0, K\ndw part\nj a',
    ('needs_i', 'i_dir'): 'a:\npart:\naddi x3, x0, K\ndw part\nj a',
    ('needs_i', 'i_two'): 'a:\nzpart:\naddi x3, x0, K\nj a',
}

ARGVS = {
    'default': [],
    'o': ['-o', 'out.bin'],
    'o_l': ['-o', 'out.bin', '-l', 'labels.txt'],
    'l_hex': ['-l', 'labels.txt', '--hex-offset', '0x08000000'],
    'hex_dec': ['-o', 'out.bin', '--hex-offset', '4096'],
    'hex_bin': ['--hex-offset', '0b1000000000000', '-l', 'labels.txt'],
    'o_hex_bad': ['-o', 'out.bin', '--hex-offset', 'zzz'],
    'hex_bad_l': ['--hex-offset', '12q', '-l', 'labels.txt'],
    'i_dir': ['-i', '../src/inc', '-o', 'out.bin'],
    'i_bad': ['-i', 'nonexistent_dir', '-l', 'labels.txt'],
    'defs_v': ['--include-definitions', '-v', '-o', 'out.bin', '-l', 'labels.txt'],
    'hex_sym': ['--hex-offset', '@H@', '-o', 'out.bin'],
    'hex_sym_l': ['-l', 'labels.txt', '--hex-offset', '@H@'],
    'i_vendor': ['-i', '../vendor', '-o', 'out.bin', '-l', 'labels.txt'],
    'i_src': ['-i', '../src', '-o', 'out.bin'],
    'i_two': ['-i', 'zinc', '-i', 'ainc', '-o', 'out.bin', '-l', 'labels.txt'],
    'i_two_dup': ['-i', 'zinc', '-i', '../run/ainc', '-i', 'zinc'],
}


def _inc_dirs():
    """every directory on the way to an included file, shortest first"""
    out = set()
    for pth in INC:
        parts = pth.split('/')[1:-1]
        for i in range(1, len(parts) + 1):
            out.add('/' + '/'.join(parts[:i]))
    return sorted(out, key=len)


class _FakeLogging:
    INFO = 20

    @staticmethod
    def basicConfig(*a, **k):
        return None


class FakeIntelHex(types.ModuleType):
    def __init__(self, log, vfs=None):
        super().__init__('intelhex')
        self._log = log
        self._vfs = vfs

    def bin2hex(self, fin, fout, offset=0):
        self._log.append(('bin2hex', fin, fout, offset, list(self._vfs.writes) if self._vfs else []))
        return 0


def cli_task(prog, argv_name, prop='C17'):
    tag = 'cli:%s:%s' % (prog, argv_name)
    progs = HISTORIES[prog[5:]] if prog.startswith('hist:') else (prog,)
    res = TaskResult(tag)
    asm = asmshim.load_asm_shimmed()
    real = asmshim.load_asm_pristine()
    prof = common.FuncProfile()
    x = core.Explorer(max_paths=400)
    n_ok = n_fail = 0
    captured = []
    orig = asm.assemble

    def cap(*a, **k):
        out = orig(*a, **k)
        captured.append((out, k.get('labels'), list(k.get('include_dirs') or [])))
        return out
    asm.assemble = cap

    def fn(p):
        v = vfsmod.VFS('/proj/run')
        for d in ('/proj/run', '/proj/src', '/proj/src/inc', '/proj/run/zinc', '/proj/run/ainc', '/proj/vendor', '/proj/vendor/drivers', '/proj/lib'):
            v.add_dir(d)
        for d in _inc_dirs():
            v.add_dir(d)
        for pth, data in OLD.items():
            (v.add_bytes if isinstance(data, bytes) else v.add_text)(pth, data)
        v.add_text('/proj/src/main.asm', PROGRAMS[progs[0]].replace('K', '@K@'))
        for pth, text in INC.items():
            v.add_text(pth, text.replace('K', '@K@'))
        for pth, data in BLOBS.items():
            v.add_bytes(pth, data)
        v.install(asm)
        K = p.int('K', 40)
        H = p.int('H', lo=0, hi=(1 << 32) - 1)
        comp = p.bool('compress')
        Markers.table = {'K': K, 'H': H}
        Formatted.table = {}
        argv = ['bronzebeard'] + (['-c'] if comp else []) + ARGVS[argv_name] + ['../src/main.asm']
        log = []
        sys.modules['intelhex'] = FakeIntelHex(log, v)
        captured.clear()
        p.notes.update(vfs=v, K=K, H=H, comp=comp, argv=argv, hexlog=log)
        old_argv = sys.argv
        sys.argv = argv
        asm.sys = sys
        asm.logging = _FakeLogging
        try:
            with prof:
                for k, pr in enumerate(progs):
                    if k:
                        # the next run of the history: new source, traces of the earlier run forgotten
                        v.add_text('/proj/src/main.asm', PROGRAMS[pr].replace('K', '@K@'))
                        v.writes.clear()
                        v.opened.clear()
                        log.clear()
                        captured.clear()
                    r = asm.cli_main()
                return r
        finally:
            sys.argv = old_argv

    for p, kind, val in x.run(fn):
        if kind == 'limit':
            res.inconc('%s: engine limit %s' % (tag, val))
            continue
        v, log = p.notes['vfs'], p.notes['hexlog']
        model = p.witness()
        kv = core.concrete(p.notes['K'], model)
        hv = core.concrete(p.notes['H'], model)
        cv = core.concrete(p.notes['comp'], model)
        failed = kind == 'exc'        # any exception, SystemExit(message / non-zero) included
        # ---- replay in a real directory tree with a real subprocess-free call ----
        real_argv = [hex(hv) if a == '@H@' else a for a in p.notes['argv']]
        got = _real_cli(real, progs, real_argv, kv)
        sym_writes = sorted({pth for ev, pth in v.writes if ev == 'open-w'})
        symc = ('fail' if failed else 'ok', sym_writes, [(e[0], e[1].split('/')[-1], e[2].split('/')[-1], core.concrete(e[3], model)) for e in log])
        realc = (got['status'], sorted(got['changed']), got['hexlog'])
        if symc != realc:
            res.inconc('%s: witness replay mismatch K=%d -c=%s: symbolic %r real %r' % (tag, kv, cv, symc, realc))
            continue
        res['validated'] += 1
        if len(res['samples']) < 2:
            res['samples'].append(dict(argv=p.notes['argv'], K=kv, status=got['status'], files_written=got['changed'], error=got.get('error', '')[:80]))
        setting = dict(program=prog, argv=real_argv, K=kv)
        if failed:
            n_fail += 1
            ok = not v.writes and not log
            what = 'the run failed (%s) after touching %s' % (got.get('error', '')[:100], sym_writes or log)
            if not ok:
                site = dict(harness='cli', kind='failed-run-wrote-files', argv=argv_name)
                kn = common.match_known(common.load_known(prop), site)
                if kn:
                    res['known'].append(dict(id=kn.get('id'), what=kn.get('what')))
                else:
                    path = common.write_replay(prop, tag + '_fail', dict(kind='cli', property=prop, setting=setting, source=[PROGRAMS[q] for q in progs], what=what))
                    res['violations'].append(dict(site, setting=setting, what=what, replay=path))
            res.oblig(ok)
            continue
        n_ok += 1
        # ---- successful run: files are exactly the assembled program ----
        probs = []
        args = p.notes['argv']
        outp = '/proj/run/' + (args[args.index('-o') + 1] if '-o' in args else 'bb.out')
        out, labels, used_dirs = captured[-1] if captured else (None, None, [])
        f = v.files.get(outp)
        if f is None or f.kind != 'written' or len(f.content) != 1 or \
                not _same_bytes(f.content[0], out):
            probs.append('-o file is not exactly the assembled bytes')
        if prog in GOLDEN and out is not None:
            _check_golden()
            ghex, glabels = GOLDEN[prog][bool(p.notes['comp'])]
            try:
                got = concretize(SymBytes.of(f.content[0]), model).hex() if f is not None and f.kind == 'written' and len(f.content) == 1 else None
            except BaseException:
                got = None
            if got != ghex:
                if got is not None and len(ghex) > 256:
                    k = next((i for i in range(0, min(len(got), len(ghex)), 2) if got[i:i + 2] != ghex[i:i + 2]), min(len(got), len(ghex))) // 2
                    probs.append('-o file (%d bytes) differs from the program encoded by hand (%d bytes) at offset %d: %s.. against %s..' % (len(got) // 2, len(ghex) // 2, k, got[2 * k:2 * k + 16], ghex[2 * k:2 * k + 16]))
                else:
                    probs.append('-o file holds %s, the program encodes by hand to %s' % (got, ghex))
            if labels is not None and {k: core.concrete(v, model) for k, v in labels.items()} != glabels:
                probs.append('labels %r, by hand %r' % ({k: core.concrete(v, model) for k, v in labels.items()}, glabels))
        # programs with includes: the bytes are those of the hand-spliced program (assembled by a fresh copy of the module)
        sp = SPLICED.get((prog, argv_name))
        if sp is not None and out is not None:
            fresh = asmshim.load_asm_shimmed()
            vfsmod.VFS('/proj/run').install(fresh)
            try:
                ref = fresh.assemble(sp.replace('K', '@K@').replace('REG', 'REG'), compress=bool(p.notes['comp']))
                if not _same_bytes(ref, out):
                    probs.append('the output is not the program with its includes spliced in (%r)' % sp)
            except core.EngineLimit:
                raise
            except Exception as e:      # noqa
                probs.append('the hand-spliced program is refused (%s) but the run succeeded' % type(e).__name__)
        # the -i directories reach the assembler in the order given (duplicates may be dropped)
        given = [v.abspath(args[i + 1]) for i, a_ in enumerate(args) if a_ == '-i']
        dedup = lambda xs: [x for i, x in enumerate(xs) if x not in xs[:i]]
        if dedup([d for d in used_dirs if d in given]) != dedup(given):
            probs.append('-i directories %r reached the assembler as %r' % (given, used_dirs))
        expected_writes = {outp}
        if '-l' in args:
            lp = '/proj/run/' + args[args.index('-l') + 1]
            expected_writes.add(lp)
            lf = v.files.get(lp)
            lines = list(lf.content) if lf is not None and lf.kind == 'written' else None
            if lines is None or not _labels_ok(lines, labels):
                probs.append('-l file is not one "name 0x%%08x" line per label: %r' % (lines,))
        if '--hex-offset' in args:
            hx = args[args.index('--hex-offset') + 1]
            if hx == '@H@':
                off_ok = len(log) == 1 and isinstance(log[0][3], SymInt) and p.sat(Not(log[0][3] == p.notes['H']))[0] == 'unsat'
            else:
                off_ok = len(log) == 1 and log[0][3] == int(hx, 0)
            if not (len(log) == 1 and v.abspath(log[0][1]) == outp and v.abspath(log[0][2]) == outp + '.hex'
                    and off_ok and ('write', outp) in log[0][4]):
                probs.append('bin2hex not called with (output, output.hex, offset) after the binary was written: %r' % (log,))
        elif log:
            probs.append('bin2hex called without --hex-offset')
        if not set(sym_writes) <= expected_writes:      # contents are checked above; a stray file is an error
            probs.append('files written %r, expected %r' % (sym_writes, sorted(expected_writes)))
        if probs:
            path = common.write_replay(prop, tag + '_ok', dict(kind='cli', property=prop, setting=setting, source=[PROGRAMS[q] for q in progs], what='; '.join(probs)))
            res['violations'].append(dict(harness='cli', kind='wrong-output', setting=setting, what='; '.join(probs), replay=path))
        res.oblig(not probs)
    if n_ok + n_fail == 0:
        res['vacuity'].append('%s: no path' % tag)
    res.absorb_stats(x.stats)
    res['functions'] = prof.names()
    return res


def _same_bytes(a, b):
    if a is b:
        return True
    try:
        sa, sb = SymBytes.of(a).segs, SymBytes.of(b).segs
    except BaseException:
        return False
    return len(sa) == len(sb) and all(_same_seg(x, y) for x, y in zip(sa, sb))


def _labels_ok(lines, labels):
    """one line per label: the label's name and its address (the number format is not fixed by
    the property: any formatting of exactly that label's value is accepted)"""
    if labels is None or len(lines) != len(labels):
        return False
    for line, (name, val) in zip(lines, labels.items()):
        parts = line.split()
        if len(parts) < 2 or parts[0].rstrip(':=') != name or not line.endswith('\n'):
            return False
        tok = parts[-1]
        if isinstance(val, SymInt):
            m = re.search(r'\u27e6\d+:[^\u27e7]*\u27e7', tok)
            if not m:
                return False
            v, spec = Formatted.table.get(m.group(0), (None, None))
            if v is not val:
                return False
        else:
            ok = False
            for base in (0, 16, 10):
                try:
                    ok = ok or int(tok, base) == val
                except ValueError:
                    pass
            if not ok:
                return False
    return True


def _real_cli(real, progs, argv, kv):
    """runs the pristine cli_main() in a real scratch tree (cwd = proj/run)"""
    import os
    import shutil
    import tempfile
    root = tempfile.mkdtemp(prefix='bbverif_')
    old_cwd, old_argv = os.getcwd(), sys.argv
    log = []
    try:
        for d in ('/proj/run', '/proj/src/inc', '/proj/run/zinc', '/proj/run/ainc', '/proj/vendor/drivers', '/proj/lib'):
            os.makedirs(root + d, exist_ok=True)
        for d in _inc_dirs():
            os.makedirs(root + d, exist_ok=True)
        for pth, data in OLD.items():
            with open(root + pth, 'wb' if isinstance(data, bytes) else 'w') as f:
                f.write(data)
        if isinstance(progs, str):
            progs = (progs,)
        with open(root + '/proj/src/main.asm', 'w') as f:
            f.write(PROGRAMS[progs[0]].replace('K', str(kv)))
        for pth, text in INC.items():
            with open(root + pth, 'w') as f:
                f.write(text.replace('K', str(kv)))
        for pth, data in BLOBS.items():
            with open(root + pth, 'wb') as f:
                f.write(data)
        os.chdir(root + '/proj/run')
        sys.argv = list(argv)
        sys.modules['intelhex'] = FakeIntelHex(log)
        status, err = 'ok', ''
        import io
        import contextlib
        try:
            with contextlib.redirect_stdout(io.StringIO()), contextlib.redirect_stderr(io.StringIO()):
                for k, pr in enumerate(progs):
                    if k:
                        with open(root + '/proj/src/main.asm', 'w') as f:
                            f.write(PROGRAMS[pr].replace('K', str(kv)))
                        log.clear()
                    before = _snapshot(root + '/proj/run')
                    real.cli_main()
        except SystemExit as e:
            if e.code not in (None, 0):
                status, err = 'fail', str(e.code)
        except BaseException as e:
            status, err = 'fail', '%s: %s' % (type(e).__name__, e)
        after = _snapshot(root + '/proj/run')
        changed = ['/proj/run/' + k for k in sorted(set(before) | set(after)) if before.get(k) != after.get(k)]
        # a file rewritten with identical content still counts as written: detect via mtime_ns too
        return dict(status=status, error=err, changed=changed,
                    hexlog=[(e[0], os.path.basename(e[1]), os.path.basename(e[2]), e[3]) for e in log])
    finally:
        os.chdir(old_cwd)
        sys.argv = old_argv
        import logging
        for h in list(logging.getLogger().handlers):
            logging.getLogger().removeHandler(h)
        shutil.rmtree(root, ignore_errors=True)


def _snapshot(d):
    import os
    out = {}
    for n in os.listdir(d):
        full = os.path.join(d, n)
        if os.path.isfile(full):
            with open(full, 'rb') as f:
                out[n] = (f.read(), os.stat(full).st_mtime_ns)
    return out

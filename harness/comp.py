"""Single-instruction programs with compression off and on, sharing their symbols.
Serves C04(i) (same effect), C12(i) (-c never breaks a build), C20(i) (everything eligible
is compressed) and part of C11."""
import z3

from symx import core
from symx.core import SymInt, SymBool, And, Or, Not
from symx.symbytes import SymBytes
from spec import isa, sem
from . import common
from .common import TaskResult
from .pipe import (Pipeline, all_templates, declare_text, sym_outcome_concrete, outcomes_agree,
                   single_word)


def pc_formula(p):
    a = p.pc_assertions()
    return z3.And(*a) if a else z3.BoolVal(True)


def bool_z3(b):
    return b.b if isinstance(b, SymBool) else z3.BoolVal(bool(b))


def explore_mode(pl, src, insn, mapping, widths, compress, prof, res, tag):
    """returns list of dict(pc, kind, val, ops, constants, markers, witness-model)"""
    x = core.Explorer(timeout_ms=60000)
    paths = []

    def fn(p):
        ops, constants, markers = declare_text(p, insn, mapping, widths)
        p.notes.update(ops=ops, constants=constants, markers=markers)
        with prof:
            return pl.assemble(src, constants, compress, markers)

    for p, kind, val in x.run(fn):
        if kind == 'limit':
            res.inconc('%s %r compress=%s: engine limit: %s' % (tag, src, compress, val))
            continue
        model = p.witness()
        real = pl.real_assemble(src, p.notes['constants'], compress, p.notes['markers'], model)
        symc = sym_outcome_concrete(kind, val, model)
        if not outcomes_agree(symc, real):
            res.inconc('%s %r compress=%s: witness replay mismatch: symbolic %r real %r' % (tag, src, compress, symc[:2], real[:2]))
            continue
        res['validated'] += 1
        paths.append(dict(pc=pc_formula(p), kind=kind, val=val, notes=dict(p.notes),
                          witness={k: core.concrete(v, model) for k, v in p.notes['ops'].items()},
                          exc=(type(val).__name__, str(val)[:120]) if kind == 'exc' else None))
    res.absorb_stats(x.stats)
    return paths, x


def eligible(insn, ops, w):
    """quantifier-free form of: exists legal non-hint halfword h with expand(h) == w.
    For each RVC class the candidate operands are read from the 32-bit operands."""
    base = insn.name
    cands = []
    g = ops.get
    for cname, (bname, f) in sem._EXP.items():
        if bname != base:
            continue
        c = isa.T[cname]
        # candidate class operands from the base operands (inverse of sem._EXP)
        co = {}
        if cname in ('c.addi4spn',):
            co = dict(rd=g('rd'), imm=g('imm'))
        elif cname == 'c.lw':
            co = dict(rd=g('rd'), rs1=g('rs1'), imm=g('imm'))
        elif cname == 'c.sw':
            co = dict(rs1=g('rs1'), rs2=g('rs2'), imm=g('imm'))
        elif cname in ('c.nop', 'c.ebreak'):
            co = {}
        elif cname in ('c.addi', 'c.li', 'c.andi', 'c.lui', 'c.lwsp'):
            co = dict(rd=g('rd'), imm=g('imm'))
        elif cname in ('c.jal', 'c.j', 'c.addi16sp'):
            co = dict(imm=g('imm'))
        elif cname in ('c.srli', 'c.srai', 'c.slli'):
            co = dict(rd=g('rd'), imm=g('shamt'))
        elif cname in ('c.sub', 'c.xor', 'c.or', 'c.and', 'c.mv', 'c.add'):
            co = dict(rd=g('rd'), rs2=g('rs2'))
        elif cname in ('c.beqz', 'c.bnez'):
            co = dict(rs1=g('rs1'), imm=g('imm'))
        elif cname in ('c.jr', 'c.jalr'):
            co = dict(rs1=g('rs1'))
        elif cname == 'c.swsp':
            co = dict(rs2=g('rs2'), imm=g('imm'))
        legal = c.legal(**co)
        if cname == 'c.lui':
            # operands of lui and c.lui are the same number only in the signed spelling;
            # 0xfffe0..0xfffff name the same field value
            pass
        exp = isa.T[bname].word(**f(co))
        cands.append(z3.And(bool_z3(legal), exp == w))
    if not cands:
        return z3.BoolVal(False)
    return z3.Or(*cands)


def comp_task(prop, m, widths, known):
    """prop in C04 C12 C20"""
    res = TaskResult('comp:%s' % m)
    insn = isa.T[m]
    pl = Pipeline()
    prof = common.FuncProfile()
    for ti, (src, mapping) in enumerate(all_templates(insn)):
        off, xoff = explore_mode(pl, src, insn, mapping, widths, False, prof, res, 'comp ' + m)
        on, xon = explore_mode(pl, src, insn, mapping, widths, True, prof, res, 'comp ' + m)
        off_ok = [a for a in off if a['kind'] == 'ok']
        if not off_ok:
            res['vacuity'].append('comp %s %r: no accepting path without -c' % (m, src))
            continue
        s = xon.solver
        names = list(xon.inputs)
        n_compressed = 0

        def q(*conds):
            import time as _t
            t0 = _t.time()
            r = s.check(*conds)
            res['queries'] += 1
            res['solver_time'] += _t.time() - t0
            return r

        def model_inputs(mdl):
            return {k: core.concrete(xon.inputs[k], mdl) for k in names}

        def concrete_pair(mdl, b):
            ro = pl.real_assemble(src, b['notes']['constants'], False, b['notes']['markers'], mdl)
            rc = pl.real_assemble(src, b['notes']['constants'], True, b['notes']['markers'], mdl)
            return ro, rc

        def violation(kind, mdl, b, what, check):
            ro, rc = concrete_pair(mdl, b)
            if not check(ro, rc):
                res.inconc('comp %s: counterexample for %s did not reproduce (%r / %r)' % (m, kind, ro[:2], rc[:2]))
                return
            cops = {k: core.concrete(v, mdl) for k, v in b['notes']['ops'].items()}
            site = dict(harness='comp', mnemonic=m, kind=kind)
            msg = rc[2] if rc[0] == 'exc' else None
            site_full = dict(site, exc=rc[1] if rc[0] == 'exc' else None)
            kn = common.match_known(known, site_full)
            if kn is not None:
                res['known'].append(dict(id=kn.get('id'), what=kn.get('what')))
                return
            payload = dict(kind='text', property=prop, mnemonic=m, source=src, operands=cops, violation=kind, what=what,
                           constants={k: core.concrete(v, mdl) for k, v in b['notes']['constants'].items()},
                           markers={k: core.concrete(v, mdl) for k, v in b['notes']['markers'].items()},
                           compress=True,
                           without_c=[ro[0], ro[1].hex() if ro[0] == 'ok' else ro[1:3]],
                           with_c=[rc[0], rc[1].hex() if rc[0] == 'ok' else rc[1:3]])
            path = common.write_replay(prop, 'comp_%s_%d_%s' % (m, ti, kind), payload)
            res['violations'].append(dict(site, source=src, operands=cops, what=what, without_c=payload['without_c'],
                                          with_c=payload['with_c'], replay=path))

        for b in on:
            for a in off_ok:
                joint = [a['pc'], b['pc']]
                if q(*joint) != z3.sat:
                    continue
                w_off = single_word(a['val'][0], 4)
                if w_off is None:
                    res.inconc('comp %s: off-mode output is not one word' % m)
                    continue
                if b['kind'] == 'exc':
                    # C12: builds without -c, fails with -c
                    if prop == 'C12':
                        res.oblig(False)
                        violation('compress-breaks-build', s.model(), b,
                                  'accepted without -c, refused with -c: %s: %s' % b['exc'],
                                  lambda ro, rc: ro[0] == 'ok' and rc[0] == 'exc')
                    continue
                if prop == 'C12':
                    res.oblig(True)
                    continue
                out_on = b['val'][0]
                h = single_word(out_on, 2)
                w_on = single_word(out_on, 4)
                w32 = w_off.bv(32) if isinstance(w_off, SymInt) else z3.BitVecVal(w_off, 32)
                if h is None and w_on is None:
                    res.oblig(False)
                    violation('bad-output-shape', s.model(), b, 'output with -c is neither one halfword nor one word',
                              lambda ro, rc: rc[0] == 'ok' and len(rc[1]) not in (2, 4))
                    continue
                if h is not None:
                    n_compressed += 1
                    if prop == 'C20':
                        res.oblig(True)
                        continue
                    hb = h.bv(16) if isinstance(h, SymInt) else z3.BitVecVal(h, 16)
                    regs = sem.RegReads('regs')
                    pc0 = z3.BitVec('pc0', 32)
                    # (a) legal RVC encoding: split on the (few) classes this path can emit
                    classes = sem.rvc_classes(hb)
                    feas = [(cn, pr, ex) for cn, pr, ex in classes if q(*joint, pr) == z3.sat]
                    r = q(*joint, z3.Not(z3.Or(*[pr for _, pr, _ in feas])) if feas else z3.BoolVal(True))
                    if r == z3.sat:
                        res.oblig(False)
                        violation('illegal-rvc', s.model(), b, 'emitted halfword is a reserved / hint / non-RV32C encoding',
                                  lambda ro, rc: rc[0] == 'ok' and len(rc[1]) == 2 and not _legal_c_concrete(rc[1]))
                    else:
                        res.oblig(True if r == z3.unsat else None, 'unknown legal_c %s' % m)
                    # (b) same architectural effect for every register file and pc
                    e32 = sem.step(w32, regs, pc0, 4)
                    for cn, pr, ex in feas:
                        e16 = sem.step(ex, regs, pc0, 2)
                        r = q(*joint, pr, regs.constraints(), z3.Not(sem.same_effect(e16, e32)))
                        if r == z3.sat:
                            res.oblig(False)
                            violation('different-effect', s.model(), b, 'compressed form (%s) has a different architectural effect' % cn,
                                      lambda ro, rc: rc[0] == 'ok' and ro[0] == 'ok' and len(rc[1]) == 2 and
                                      not _same_effect_concrete(rc[1], ro[1]))
                        else:
                            res.oblig(True if r == z3.unsat else None, 'unknown effect %s as %s' % (m, cn))
                else:
                    # stayed 32 bits
                    if prop == 'C04':
                        e = w_on == w_off
                        r = q(*joint, z3.Not(bool_z3(e)))
                        if r == z3.sat:
                            res.oblig(False)
                            violation('uncompressed-changed', s.model(), b, 'instruction left at 32 bits but its word changed',
                                      lambda ro, rc: rc[0] == 'ok' and ro[0] == 'ok' and rc[1] != ro[1])
                        else:
                            res.oblig(True if r == z3.unsat else None, 'unknown keep %s' % m)
                    elif prop == 'C20':
                        legal = bool_z3(insn.legal(**b['notes']['ops']))
                        r = q(*joint, legal, eligible(insn, b['notes']['ops'], w32))
                        if r == z3.sat:
                            res.oblig(False)
                            violation('missed-compression', s.model(), b,
                                      'instruction equals the expansion of a legal non-hint RVC instruction but was left at 32 bits',
                                      lambda ro, rc: rc[0] == 'ok' and ro[0] == 'ok' and len(rc[1]) == 4 and
                                      _eligible_concrete(ro[1]))
                        else:
                            res.oblig(True if r == z3.unsat else None, 'unknown eligible %s' % m)
        if len(res['samples']) < 2 and on:
            res['samples'].append(dict(source=src, paths_without_c=len(off), paths_with_c=len(on),
                                       compressed_paths=n_compressed, witness=on[0]['witness']))
    res['functions'] = prof.names()
    return res


# ---------------------------------------------------------------------------
# concrete versions of the oracles, used only to confirm counterexamples
# ---------------------------------------------------------------------------
def _legal_c_concrete(b2):
    h = z3.BitVecVal(int.from_bytes(b2, 'little'), 16)
    return z3.is_true(z3.simplify(sem.legal_c(h)))


def _same_effect_concrete(b2, b4):
    """decided by the solver for these two fixed words over all register files"""
    h = z3.BitVecVal(int.from_bytes(b2, 'little'), 16)
    w = z3.BitVecVal(int.from_bytes(b4, 'little'), 32)
    regs = z3.Array('regs', z3.BitVecSort(5), z3.BitVecSort(32))
    pc0 = z3.BitVec('pc0', 32)
    s = z3.Solver()
    s.add(z3.Not(sem.same_effect(sem.step(sem.expand(h), regs, pc0, 2), sem.step(w, regs, pc0, 4))))
    return s.check() == z3.unsat and _legal_c_concrete(b2)


def _eligible_concrete(b4):
    w = z3.BitVecVal(int.from_bytes(b4, 'little'), 32)
    h = z3.BitVec('h', 16)
    s = z3.Solver()
    s.add(sem.legal_c(h), sem.expand(h) == w)
    return s.check() == z3.sat

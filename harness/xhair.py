"""Engine E2: CrossHair (symbolic execution of Python over z3) on the text front end.
Each condition is a function in /verif/xh/*.py with a PEP-316 contract; one process per
condition.  Verdicts:
   'Confirmed over all paths'   -> discharged within the stated string / count bounds
   counterexample               -> re-run concretely on the real code; VIOLATION if it reproduces
   'Not confirmed' / 'Unable to meet precondition' / timeout -> inconclusive
Conditions listed as bug-hunting-only never count as discharged."""
import ast
import concurrent.futures
import importlib.util
import os
import re
import subprocess
import sys
import time

from . import common
from .common import TaskResult

XH = os.path.join(common.VERIF, 'xh')
PY = sys.executable


def conditions(filename):
    """[(function name, line number, docstring)] of the contract functions in xh/<filename>"""
    path = os.path.join(XH, filename)
    with open(path) as f:
        tree = ast.parse(f.read())
    out = []
    for node in tree.body:
        if isinstance(node, ast.FunctionDef) and ast.get_docstring(node) and 'post:' in ast.get_docstring(node):
            out.append((node.name, node.lineno, ast.get_docstring(node)))
    return out


def run_condition(filename, func, lineno, timeout):
    path = os.path.join(XH, filename)
    env = dict(os.environ, PYTHONPATH=common.REPO + os.pathsep + XH, PYTHONHASHSEED='0', PYTHONDONTWRITEBYTECODE='1')
    cmd = [PY, '-m', 'crosshair', 'check', '--report_all', '--per_condition_timeout', str(timeout),
           '%s:%d' % (path, lineno + 1)]
    t0 = time.time()
    try:
        pr = subprocess.run(cmd, env=env, capture_output=True, text=True, timeout=timeout * 2 + 60, cwd=XH)
        out = pr.stdout + pr.stderr
    except subprocess.TimeoutExpired as e:
        out = 'TIMEOUT ' + str(e)
    dt = time.time() - t0
    verdict, detail = 'inconclusive', out.strip().splitlines()[-1] if out.strip() else ''
    if 'Confirmed over all paths' in out:
        verdict = 'confirmed'
    if 'error:' in out and ' when calling ' in out:
        call = out.rsplit(' when calling ', 1)[1].splitlines()[0]
        call = re.sub(r' \(which returns .*\)\s*$', '', call).strip()
        verdict, detail = 'counterexample', call
    elif 'error:' in out and verdict != 'confirmed':
        verdict, detail = 'counterexample?', [l for l in out.splitlines() if 'error:' in l][0]
    return dict(file=filename, func=func, verdict=verdict, detail=detail, seconds=round(dt, 1), raw=out[-600:])


def reproduce(filename, call):
    """evaluate the counterexample call concretely: contract functions have a concrete
    twin  <name>__check(*args) -> bool  (True = property holds) in the same module"""
    path = os.path.join(XH, filename)
    if common.REPO not in sys.path:
        sys.path.insert(0, common.REPO)
    spec = importlib.util.spec_from_file_location('xh_' + filename[:-3], path)
    mod = importlib.util.module_from_spec(spec)
    sys.dont_write_bytecode = True
    spec.loader.exec_module(mod)
    m = re.match(r'(\w+)\((.*)\)$', call.strip(), re.S)
    if not m:
        return None, 'cannot parse %r' % call
    fn = getattr(mod, m.group(1) + '__check', None)
    if fn is None:
        return None, 'no concrete twin'
    try:
        args = eval('(lambda *a, **k: (a, k))(%s)' % m.group(2), {'__builtins__': {}}, {})
        ok = fn(*args[0], **args[1])
        return bool(ok), 'holds' if ok else 'fails on the real code'
    except Exception as e:
        return False, 'raises %s: %s' % (type(e).__name__, e)


def xhair_task(prop, filename, timeout, only=None, bughunt=()):
    """run every condition of one file (in this worker: sequentially; files are spread over workers)"""
    res = TaskResult('crosshair:%s' % filename)
    conds = conditions(filename)
    for func, lineno, doc in conds:
        if only and func not in only:
            continue
        twin = func.endswith('__mustfail')
        r = run_condition(filename, func, lineno, timeout)
        if r['verdict'] == 'inconclusive' and not twin and not (func in bughunt or '[bughunt]' in doc):
            # not confirmed within the budget (busy machine?): one more attempt with three times the budget
            r = run_condition(filename, func, lineno, timeout * 3)
        res['paths'] += 1
        res['decisions'] += 1
        res['queries'] += 1
        res['solver_time'] += r['seconds']
        hunt = func in bughunt or '[bughunt]' in doc
        if twin:
            # reachability witness: the twin's postcondition is false whenever it is reached
            if r['verdict'].startswith('counterexample'):
                res.oblig(True)
            else:
                res['vacuity'].append('%s:%s reachability twin was not violated (%s)' % (filename, func, r['verdict']))
            continue
        if len(res['samples']) < 3:
            res['samples'].append(dict(condition='%s:%s' % (filename, func), verdict=r['verdict'], seconds=r['seconds'],
                                       contract=[l.strip() for l in doc.splitlines() if l.strip().startswith(('pre:', 'post:'))][:4]))
        if r['verdict'] == 'confirmed':
            if hunt:
                res['notes'].append('%s confirmed (listed bug-hunting only)' % func)
            res.oblig(True)
        elif r['verdict'].startswith('counterexample'):
            ok, why = reproduce(filename, r['detail']) if r['verdict'] == 'counterexample' else (None, r['detail'])
            if ok is False:
                res['validated'] += 1
                path = common.write_replay(prop, 'xh_%s_%s' % (filename[:-3], func), dict(kind='crosshair', property=prop, file=filename,
                                                                                         condition=func, call=r['detail'], result=why))
                site = dict(harness='crosshair', condition=func)
                kn = common.match_known(common.load_known(prop), site)
                if kn:
                    res['known'].append(dict(id=kn.get('id'), what=kn.get('what')))
                else:
                    res['violations'].append(dict(site, file=filename, call=r['detail'], what=why, replay=path))
                res.oblig(False)
            else:
                res.inconc('%s:%s counterexample %s did not reproduce (%s)' % (filename, func, r['detail'][:200], why))
        else:
            if hunt:
                res['notes'].append('%s:%s not confirmed in %ss (bug-hunting only, not claimed)' % (filename, func, r['seconds']))
                res.setdefault('bughunt', []).append('%s:%s' % (filename, func))
            else:
                res.inconc('%s:%s %s after %ss: %s' % (filename, func, r['verdict'], r['seconds'], r['detail'][:200]))
    res['functions'] = ['asm.lex_tokens', 'asm.parse_item', 'asm.parse_immediate', 'asm.read_lines', 'asm.assemble']
    return res

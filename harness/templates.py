"""Layout templates (DESIGN.md 6 C03).  Labels are L<n>, gaps G<n>, symbolic li values K<n>,
BASE is a symbolic 32-bit base address."""
import itertools
import random

F4 = 'add x20 x21 x22'        # can never be compressed
FC = 'addi x9 x9 1'           # always compressed with -c (c.addi)
NOP = 'addi x0 x0 0'


def G(i):
    return 'include_bytes G%d.bin' % i


CURATED = [
    ('br_fwd_gap', ['beq x8 x0 L1', G(0), 'L1:', F4]),
    ('br_bwd_gap', ['L1:', G(0), 'bne x8 x0 L1']),
    ('brn_fwd_fill', ['blt x5 x6 L1', FC, FC, 'L1:', F4]),
    ('brn_bwd_gap', ['L1:', FC, G(0), 'bgeu x5 x6 L1']),
    ('pbr_fwd', ['bgt x5 x6 L1', FC, G(0), 'L1:', FC]),
    ('pbr_bwd', ['L1:', G(0), FC, 'bnez x9 L1']),
    ('j_fwd', ['j L1', G(0), 'L1:', F4]),
    ('j_bwd', ['L1:', FC, G(0), 'j L1']),
    ('jal_fwd', ['jal L1', FC, G(0), 'L1:', F4]),
    ('jal3_bwd', ['L1:', G(0), 'jal x5 L1']),
    ('call_fwd', ['call L1', G(0), 'L1:', F4]),
    ('call_bwd', ['L1:', FC, G(0), 'call L1']),
    ('tail_fwd', ['tail L1', FC, G(0), 'L1:', F4]),
    ('tail_bwd', ['L1:', G(0), 'tail L1']),
    ('two_calls', ['call L1', 'call L2', G(0), 'L1:', F4, 'L2:', FC]),
    ('call_then_br', ['beq x8 x0 L1', 'call L2', 'L1:', FC, G(0), 'L2:', F4]),
    ('li_between_labels', ['L0:', 'li x5 K0', 'L1:', 'j L1', 'j L0']),
    ('li_li_br', ['beq x8 x0 L1', 'li x5 K0', 'li x6 100000', 'li x7 -3', 'L1:', F4]),
    ('li_label_fwd', ['li x6 L1', G(0), 'L1:', F4]),
    ('li_label_bwd', ['L1:', G(0), 'li x6 L1']),
    ('li_position', ['li x7 %position(L1, BASE)', FC, G(0), 'L1:', F4]),
    ('li_label_then_shrink', ['li x6 L1', 'li x5 77', 'call L1', G(0), 'L1:', F4]),
    ('dw_label', ['dw L1', 'db 7', G(0), 'L1:', F4, 'dw L1']),
    ('pack_position', ['pack <I %position(L1, BASE)', 'li x5 K0', 'L1:', FC, 'pack <I %position(L1, BASE)']),
    ('hilo_label', ['lui x5 %hi(L1)', 'addi x5 x5 %lo(L1)', G(0), 'L1:', F4]),
    ('hilo_label_fill', ['lui x5 %hi(L1)', 'addi x5 x5 %lo(L1)', FC, 'li x6 9', G(0), 'L1:', F4]),
    ('addi_offset_fwd', ['addi x5 x5 %offset(L1)', FC, G(0), 'L1:', F4]),
    ('addi_offset_bwd', ['L1:', G(0), 'li x6 K0', 'addi x5 x6 %offset(L1)']),
    ('lw_lo_label', ['lui x5 %hi(L1)', 'lw x6 x5 %lo(L1)', 'j L2', G(0), 'L1:', 'dw 5', 'L2:', F4]),
    ('align4_after_db', ['db 1', 'align 4', 'L1:', FC, 'j L1']),
    ('align8_gap', [G(0), 'align 8', 'L1:', 'beq x8 x0 L1', 'j L1']),
    ('align3_gap', ['j L1', G(0), 'align 3', 'L1:', 'db 1']),
    ('align5_gap', ['dw L1', G(0), 'align 5', 'L1:', 'db 1']),
    ('align16_compress', [FC, 'align 16', 'L1:', FC, FC, FC, 'align 4', 'L2:', 'j L1', 'j L2']),
    ('align64_gap_call', ['call L1', G(0), 'align 64', 'L1:', F4]),
    ('align4096_gap', ['j L1', G(0), 'align 4096', 'L1:', F4]),
    ('align1', ['db 1', 'align 1', 'L1:', 'db 2', 'dw L1']),
    ('align2_odd', ['db 1', G(0), 'align 2', 'L1:', FC, 'j L1']),
    ('adjacent_aligns', ['db 1', 'align 4', 'align 8', 'L1:', FC, 'align 2', 'align 4', 'L2:', 'dw L1', 'dw L2']),
    ('data_mix', ['dw L1', 'db 7', 'dh 8', 'dd 9', 'bytes 1 2 3', 'shorts 1 2', 'ints 1', 'longs 2', 'longlongs 3',
                  'string ab', 'pack <h -2', 'L1:', F4]),
    ('labels_adjacent', ['L0:', 'L1:', FC, 'L2:', 'L3:', 'j L0', 'j L1', 'j L2', 'j L3']),
    ('const_line', ['K9 = 5', 'L1:', 'addi x5 x0 K9', 'j L1']),
    ('shrink_chain', ['j L3', 'li x5 K0', 'call L3', FC, 'tail L3', 'L3:', F4]),
    ('two_gaps', ['beq x8 x0 L2', G(0), 'L1:', 'j L2', G(1), 'L2:', 'j L1']),
]

# ---------------------------------------------------------------------------
# adjacency family: every kind of item in front of a label that sits directly on every kind
# of shrinking item; the label is referenced by a jump and a data word, a second label lies
# behind a symbolic gap (so call / tail / branches to it are near or far)
# ---------------------------------------------------------------------------
PREFIX = {
    'f4': [F4], 'fc': [FC], 'liK': ['li x5 K0'], 'li5': ['li x5 5'], 'liL': ['li x6 L2'],
    'call2': ['call L2'], 'tail2': ['tail L2'], 'al8': ['align 8'], 'dw': ['dw 7'], 'dh_al': ['dh 1', 'align 4'],
    'brc2': ['beq x8 x0 L2'], 'j2': ['j L2'], 'hi2': ['lui x5 %hi(L2)'], 'mv': ['mv x8 x9'], 'none': [],
}
SHRINKER = {
    'li7': ['li x6 7'], 'call1': ['call L1'], 'tail1': ['tail L1'], 'fc': [FC], 'mv': ['mv x8 x9'],
    'al4': ['align 4'], 'ret': ['ret'], 'f4': [F4], 'brc1': ['bnez x8 L1'],
    'csub': ['sub x8 x8 x9'], 'cslli': ['slli x9 x9 2'], 'cadd': ['add x8 x8 x9'], 'ebreak': ['ebreak'],
}


def adjacency():
    out = []
    for pn, pl in PREFIX.items():
        for sn, sl in SHRINKER.items():
            lines = pl + ['L1:'] + sl + ['j L1', 'dw L1', G(0), 'L2:', F4]
            out.append(('adj_%s_%s' % (pn, sn), lines))
    return out


# ---------------------------------------------------------------------------
# between family: every kind of item between a label and a pc-relative reference to it
# (backward) / between the reference and the label (forward): the value depends on how every
# pass accounts for the size of that item
# ---------------------------------------------------------------------------
ITEMS = {
    'f4': [F4], 'fc': [FC], 'liK': ['li x5 K0'], 'li5': ['li x5 5'], 'lifar': ['li x5 0x12345678'],
    'call9': ['call L9'], 'tail9': ['tail L9'], 'dh_al8': ['dh 1', 'align 8'], 'al4': ['align 4'],
    'dh': ['dh 1'], 'db2': ['db 1', 'db 2'], 'dw': ['dw 7'], 'dd': ['dd 1'], 'bytes': ['bytes 1 2'],
    'shorts': ['shorts 1 2 3'], 'ints': ['ints 1'], 'longs': ['longs 1'], 'longlongs': ['longlongs 1'],
    'string': ['string ab'], 'string_u': ['string \u00e9\u00e9'], 'string_esc': ['string a\\nbc'],
    'packh': ['pack <h 1'], 'packQ': ['pack >Q 1'], 'gap': [G(1)], 'mv': ['mv x8 x9'], 'ret': ['ret'],
    'hi': ['lui x5 %hi(L9)'], 'const': ['K9 = 3'], 'label': ['L8:'],
    'longs_neg': ['longs -1 2'], 'bytes_neg': ['bytes -1 -128'], 'shorts_neg': ['shorts -2'], 'ints_neg': ['ints -3'],
    'longlongs_neg': ['longlongs -4'], 'csub': ['sub x8 x8 x9'], 'cand': ['and x8 x8 x9'], 'cslli': ['slli x9 x9 2'],
    # pack formats without a byte-order character use the host's native sizes (l / L are 8 bytes on LP64)
    'packL_native': ['pack L 7'], 'packl_native': ['pack l -7'], 'packI_native': ['pack I 7'], 'packq_eq': ['pack =q 1'],
    'li_clui': ['li x10 0x5004'], 'li_clui_neg': ['li x9 -4103'], 'lui_hi_lit': ['lui x11 %hi(0x5004)', 'addi x11 x11 %lo(0x5004)'],
    'string_trail': ['string ab  '], 'string_lead': ['string   ab'], 'string_hash': ['string a #b'],
    'pack_pad': ['pack <2xH 0x1234'], 'pack_pad_lead': ['pack <xB 1', 'dh 2'], 'pack_pad_trail': ['pack <H2x 5'], 'pack_net': ['pack !H 0x1234'], 'pack_eqI': ['pack =I 7'],
    'auipc_ret': ['auipc x10 0', 'ret'], 'auipc_jalr': ['auipc x6 16', 'jalr x0 x6 0'], 'auipc_jr': ['auipc x5 0', 'jr x5'],
}


def data_align():
    """every data item kind followed by aligns of several sizes (the align sees the position the sizes add up to)"""
    out = []
    data = ['dh', 'db2', 'dw', 'dd', 'bytes', 'shorts', 'ints', 'longs', 'longlongs', 'string', 'string_u', 'packh', 'packQ',
            'packL_native', 'packl_native', 'packq_eq', 'longs_neg', 'longlongs_neg', 'pack_pad', 'pack_pad_lead', 'pack_pad_trail', 'pack_net', 'pack_eqI', 'string_trail', 'string_lead', 'string_hash']
    for name in data:
        item = ITEMS[name]
        out.append(('dal_' + name, item + ['align 8', 'L1:', 'dw L1'] + item + ['db 1', 'align 3', 'L2:', 'dw L2', 'align 16', 'L3:', 'dd L3']))
    return out


def between():
    out = []
    for name, item in ITEMS.items():
        tail = [G(0), 'L9:', F4] if any('L9' in x for x in item) else []
        out.append(('btw_b_' + name, ['L0:'] + item + ['dw %offset(L0)', 'addi x5 x5 %offset(L0)', 'j L0', 'dw L0'] + tail))
        out.append(('btw_f_' + name, ['j L1', 'dw %offset(L1)', 'lw x5 x6 %offset(L1)'] + item + ['L1:', F4, 'dw L1'] + tail))
    return out


CURATED += [
    # instructions that have no 16-bit form at all (fences, atomics, system, csr, multiply) in front of labelled compressible ones
    ('fence_then_label_fc', ['fence', 'L1:', FC, 'bnez x9 L1', 'j L1', 'dw L1']),
    ('amo_then_label_fc', ['L0:', 'amoswap.w x5 x6 x7', 'bnez x5 L0', 'L1:', FC, 'beq x9 x0 L1', 'jal L1', 'dw L0']),
    ('lrsc_loop_label_fc', ['L0:', 'lr.w x5 x6', 'sc.w x7 x6 x5', 'L1:', FC, 'bnez x7 L0', 'j L1', 'L2:', 'ret', 'dw L2']),
    ('system_then_label_fc', ['ecall', 'csrrw x5 x6 0x300', 'mul x8 x8 x9', 'fence.i', 'L1:', 'mv x8 x9', 'L2:', FC, 'j L1', 'dw L2']),
    ('fc_label_bwd_br', [FC, 'L1:', G(0), 'bnez x8 L1']),
    ('fc_fc_label_bwd_j', [FC, FC, 'L1:', G(0), 'j L1']),
    ('mv_label_bwd_br', ['mv x8 x9', 'L1:', G(0), 'beq x8 x0 L1', 'jal L1']),
    ('label_before_align', ['dw L1', 'dh 1', 'L1:', 'align 4', FC, 'j L1']),
    ('label_before_align_aligned', ['dw L1', 'L1:', 'align 8', F4, 'beq x8 x0 L1']),
    ('string_utf8_align', ['string caf\u00e9 \u00b5s', 'align 4', 'L1:', 'dw L1', 'string \u65e5\u672c', 'align 8', 'L2:', 'dw L2']),
    ('string_escape_align', ['string a\\nb\\t\\x41', 'L0:', 'align 4', 'L1:', 'dw L1', 'dw L0']),
    ('offset_after_padded_align', ['dh 1', 'align 4', 'L1:', FC, 'addi x5 x5 %offset(L1)', 'dw %offset(L1)', 'db 1', 'align 8', 'pack <i %offset(L1)', 'j L1']),
    ('offset_after_gap_align', [G(0), 'align 16', 'L1:', F4, 'dw %offset(L1)', 'lw x5 x6 %offset(L1)', 'beq x8 x0 L1']),
    # a jal at the very edge of its reach with an align behind the gap: see known finding F1 (C12)
    ('reach_edge_align', ['dh 1', 'sub x8 x8 x9', 'jal x5 L3', F4, G(0), 'align 4', 'L3:', F4]),
    # a literal, compressible jalr right behind a hand-written auipc (not a call / tail expansion)
    ('auipc_then_ret', ['L1:', 'auipc x10 0', 'ret', FC, 'L2:', 'j L1', 'dw L2']),
    ('auipc_then_jalr', ['auipc x6 16', 'jalr x0 x6 0', 'L1:', F4, 'auipc x1 0', 'jalr x1 x1 0', 'L2:', 'j L1', 'dw L2']),
    # the same kind of program as text with \r\n line ends (every line kind, strings in front of labels and aligns)
    ('crlf_strings!crlf', ['string abc', 'L1:', 'bytes 1 2', 'string d', 'align 4', 'L2:', 'dw L1', 'dw L2', FC, 'j L2', 'K9 = 3', 'addi x9 x9 K9', 'string \u00e9']),
    ('crlf_code!crlf', ['L1:', FC, 'li x5 K0', G(0), 'beq x8 x0 L1', 'pack <h 1', 'align 2', 'L2:', 'call L1', 'dw %offset(L2)']),
    # a far call (auipc+jalr: a %hi/%lo pair), then labels that sit directly in front of shrinking li's, and pairs naming them
    ('hilo_far_call_label_li', ['call L9', 'L1:', 'li x10 5', 'lui x5 %hi(L1)', 'addi x5 x5 %lo(L1)', 'ret', G(0), 'L9:', 'li x11 7', 'lui x6 %hi(L9)', 'lw x6 x6 %lo(L9)', 'ret']),
    ('hilo_far_tail_label_li', ['tail L9', 'L1:', 'li x10 K0', 'lui x5 %hi(L1)', 'addi x5 x5 %lo(L1)', G(0), 'L9:', 'li x11 7', 'call L1', 'dw L9']),
    # an align as the very last item (only labels / constants behind it): its padding is part of the image
    ('align_last', [FC, 'db 1', 'align 4']),
    ('align_last_label', [F4, 'dh 1', 'L1:', 'align 256', 'L2:', 'K9 = 3']),
    ('align_last_after_jump', ['L1:', FC, 'j L1', 'align 8']),
    # labels spelled like registers: every kind of reference still means the label
    ('labels_named_like_registers', ['a2:', F4, 'j a2', 'dw a2', 'dw %offset(a2)', 's2:', 'li x6 s2', 'dw %position(s2, BASE)', 'lui x5 %hi(s2)', 'addi x5 x5 %lo(s2)', 'beq x8 x0 s2']),
    ('far_call_then_bwd_br', ['call L9', 'L1:', G(0), 'bnez x8 L1', 'j L1', G(1), 'L9:', F4]),
    ('far_tail_then_bwd_j', ['mv x8 x9', 'tail L9', 'L1:', FC, G(0), 'j L1', 'beq x9 x0 L1', G(1), 'L9:', F4]),
    ('labelref_then_regonly', ['L0:', 'bne x8 x9 L0', 'sub x8 x8 x9', 'lui x5 %hi(L0)', 'and x8 x8 x9', 'lw x12 x0 %lo(L0)', 'slli x9 x9 2', 'dw L0', 'add x8 x8 x9', 'j L0', 'ebreak']),
    ('hilo_label_bwd_shrink', ['li x7 K0', G(0), 'L1:', 'dw 5', 'lui x5 %hi(L1)', 'addi x5 x5 %lo(L1)', 'lw x6 x5 %lo(L1)', 'li x6 L1']),
    ('hilo_position_bwd_shrink', ['call L9', G(0), 'L1:', 'dd 1', 'lui x8 %hi(%position(L1, BASE))', 'addi x8 x8 %lo(%position(L1, BASE))', FC, G(1), 'L9:', F4]),
    ('same_text_twice', ['auipc x5 %hi(%offset(L1))', 'addi x5 x5 %lo(%offset(L1))', F4, 'auipc x6 %hi(%offset(L1))', 'addi x6 x6 %lo(%offset(L1))', 'dw %lo(%offset(L1))', G(0), 'L1:', F4, 'dw %lo(%offset(L1))', 'dw %lo(%offset(L1))']),
    ('two_far_calls_same_label', ['call L1', FC, 'call L1', 'tail L1', G(0), 'L1:', F4, 'call L1']),
    ('const_label_clash', ['K9 = 4', 'addi x9 x9 K9', 'lw x9 K9(x2)', 'li x5 K9', 'dw K9', G(0), 'K9:', F4, 'j L1', 'L1:']),
    ('position_wide', ['dd %position(L1, WIDE)', 'pack <q %position(L1, WIDE)', 'li x7 %position(L1, WIDE)', G(0), 'L1:', F4, 'pack >q %position(L1, WIDE)']),
    ('aligns_decreasing', ['dh 1', 'align 4', 'align 3', 'L1:', 'db 1', 'align 8', 'align 6', 'L2:', 'dw L1', 'align 6', 'align 4', 'L3:', 'dw L2', 'dw L3']),
    ('label_between_aligns', ['dh 1', 'align 4', 'L1:', 'align 8', 'L2:', 'dw L1', 'dw L2']),
]

SLOTS_FWD = {
    'f4': [F4], 'fc': [FC], 'liK': ['li x5 K0'], 'liL': ['li x6 LT'], 'brc': ['beq x8 x0 LT'],
    'brn': ['blt x5 x6 LT'], 'j': ['j LT'], 'jal': ['jal LT'], 'call': ['call LT'], 'tail': ['tail LT'],
    'gap': [G(0)], 'al4': ['align 4'], 'al8': ['align 8'], 'al3': ['align 3'], 'db': ['db 1'],
    'dw': ['dw LT'], 'hilo': ['lui x5 %hi(LT)', 'addi x5 x5 %lo(LT)'], 'off': ['addi x5 x5 %offset(LT)'],
}


def enumerated(max_len, seed, limit):
    """all slot sequences up to max_len with the target label after (forward) or before
    (backward) the sequence; `limit` longer random ones chosen by seed"""
    names = sorted(SLOTS_FWD)
    out = []
    for n in range(1, max_len + 1):
        for seq in itertools.product(names, repeat=n):
            if sum(1 for s in seq if s == 'gap') > 1 or sum(1 for s in seq if s == 'liK') > 1:
                continue
            if not any(s in ('liL', 'brc', 'brn', 'j', 'jal', 'call', 'tail', 'dw', 'hilo', 'off') for s in seq):
                continue
            lines = [l for s in seq for l in SLOTS_FWD[s]]
            out.append(('enum_f_' + '_'.join(seq), [l.replace('LT', 'L1') for l in lines] + ['L1:', F4]))
            out.append(('enum_b_' + '_'.join(seq), ['L1:'] + [l.replace('LT', 'L1') for l in lines]))
    rnd = random.Random(seed)
    for k in range(limit):
        n = rnd.randint(max_len + 1, 7)
        seq = [rnd.choice(names) for _ in range(n)]
        while sum(1 for s in seq if s == 'gap') > 1:
            seq[seq.index('gap')] = 'fc'
        while sum(1 for s in seq if s == 'liK') > 1:
            seq[seq.index('liK')] = 'f4'
        cut = rnd.randint(0, n)
        lines = []
        for i, s in enumerate(seq):
            if i == cut:
                lines.append('L1:')
            lines += [l.replace('LT', 'L1') for l in SLOTS_FWD[s]]
        if cut == n:
            lines += ['L1:', F4]
        out.append(('rand_%d_%d' % (seed, k), lines))
    return out


SYMBOLIC_ALIGN = [
    ('align_symN', ['dh 1', G(0), 'align @N0@', 'L1:', 'dw L1', 'db 1', 'align @N1@', 'L2:', 'dw L2']),
    ('align_symN_code', [FC, G(0), 'align @N0@', 'L1:', F4, 'dw L1', 'dw %offset(L1)']),
    ('align_symN_adjacent', ['dh 1', G(0), 'align @N0@', 'L0:', 'align @N1@', 'L1:', 'dw L1', 'dw L0']),
    ('align_symN_adjacent3', ['db 1', 'align @N0@', 'align @N1@', 'K9 = 1', 'align @N2@', 'L1:', 'db 2', 'dw L1']),
]


def random_programs(seed, n, max_len=9):
    """seeded random programs over a rich alphabet with up to three labels placed anywhere;
    every program is then decided for all values of its symbols (gap size, li value, base)"""
    rnd = random.Random(1000003 * (seed + 1))
    plain = [F4, FC, 'li x5 5', 'li x5 0x12345678', 'mv x8 x9', 'ret', 'sub x8 x8 x9', 'slli x9 x9 2', 'ebreak',
             'dw 7', 'dh 1', 'dd 1', 'bytes 1 2', 'shorts -1 2', 'ints 1', 'longs -1', 'longlongs 1', 'string ab',
             'string \u00e9x', 'pack <h 1', 'pack >Q 1', 'pack L 7', 'pack l -1', 'auipc x6 0', 'li x10 0x5004', 'li x9 100000', 'lui x11 %hi(0x7004)', 'align 4', 'align 8', 'align 2', 'K9 = 3', 'addi x9 x9 K9',
             'lw x9 4(x2)', 'sw x8 8(x9)', 'and x8 x8 x9', 'jr x5', 'nop', 'fence']
    refs = ['beq x8 x0 %s', 'blt x5 x6 %s', 'bnez x9 %s', 'bgt x5 x6 %s', 'j %s', 'jal %s', 'jal x5 %s', 'call %s', 'tail %s',
            'dw %s', 'dw %%offset(%s)', 'li x6 %s', 'addi x5 x5 %%offset(%s)', 'lui x5 %%hi(%s)', 'addi x5 x5 %%lo(%s)',
            'pack <I %%position(%s, BASE)', 'li x7 %%position(%s, BASE)', 'lw x6 x5 %%lo(%s)']
    out = []
    for k in range(n):
        nl = rnd.randint(1, 3)
        labels = ['L%d' % (i + 1) for i in range(nl)]
        length = rnd.randint(3, max_len)
        body = []
        used_gap = used_k = 0
        for _ in range(length):
            r = rnd.random()
            if r < 0.45:
                body.append(rnd.choice(refs) % rnd.choice(labels))
            elif r < 0.52 and used_gap < 2:
                body.append(G(used_gap))
                used_gap += 1
            elif r < 0.57 and not used_k:
                body.append('li x5 K0')
                used_k = 1
            else:
                body.append(rnd.choice(plain))
        for lab in labels:
            body.insert(rnd.randint(0, len(body)), lab + ':')
        if 'K9' in ' '.join(body) and not any(b.startswith('K9 =') for b in body):
            body.insert(0, 'K9 = 3')
        elif any(b.startswith('K9 =') for b in body):
            body = ['K9 = 3'] + [b for b in body if not b.startswith('K9 =')]
        out.append(('rand_%d_%d' % (seed, k), body))
    return out


def relevant(prop, lines):
    """does this template carry an obligation of ``prop``"""
    from .layout import classify, value_expr
    ls = [classify(x) for x in lines]
    if prop == 'C03':
        return any(l.get('transfer') or l['kind'] == 'label' for l in ls)
    if prop == 'C08':
        for l in ls:
            if l['kind'] == 'data' and l.get('value'):
                ve = value_expr(l['value'])
                if ve is not None and ve[0] != 'const':
                    return True
            if l['kind'] in ('insn', 'pseudo2') and l['labels'] and not l.get('transfer'):
                return True
        return False
    return True


def natural_alignment(lines):
    """no odd-sized data or odd alignment in front of code: instructions stay 2-byte aligned
    in both modes (used to bound C12/C20 products)"""
    from .layout import classify
    for x in lines:
        l = classify(x)
        if l['kind'] == 'align' and l['n'] % 2:
            return False
        if l['kind'] == 'data' and l['size'] % 2:
            return False
    return True


# programs for the off / on acceptance product of C12 only (the other obligations do not apply: a pc-relative reference
# to an absolute constant legitimately encodes different numbers in the two modes)
C12_ONLY = [
    ('offset_of_constant_after_li', ['li x6 1', 'addi x5 x5 %offset(K0)', F4]),
    ('offset_of_constant_after_mv', [FC, 'mv x8 x9', 'addi x9 x9 %offset(K0)', 'sw x8 x9 %offset(K0)', F4]),
    ('offset_of_constant_in_li', ['ret', 'li x7 %offset(K0)', 'lw x9 x8 %offset(K0)']),
]

"""C14: include trees over a virtual file system (symbolic existence bits, symbolic working
directory, symbolic operands) against the textually spliced program."""
import z3

from symx import core, asmshim, vfs as vfsmod
from symx.core import SymInt, SymBool, And, Or, Not
from symx.symbytes import SymBytes, concretize
from symx.asmshim import Markers
from . import common
from .common import TaskResult
from .comp import pc_formula, bool_z3
from .equiv import seg_equal

CWDS = ['/proj/src', '/proj/run', '/elsewhere', '/proj/src/lib']

# name -> dict(main=path, files={path: [lines]}, candidates={include name: {role: path}}, idir)
TREES = {
    'depth2_middle': dict(
        main='/proj/src/main.asm',
        fixed={
            '/proj/src/main.asm': ['top:', 'addi x1, x0, K0', 'include lib/a.asm', 'j top', 'dw a_start'],
            '/proj/src/lib/a.asm': ['a_start:', 'addi x2, x0, K0', 'include b.asm  # nested', 'dw a_start'],
        },
        var='b.asm', including='/proj/src/lib/a.asm',
        cands={'adjacent': ('/proj/src/lib/b.asm', ['db 1', 'align 4', 'b_lbl:']),
               'idir': ('/proj/inc/b.asm', ['db 2', 'db 3', 'align 4', 'b_lbl:']),
               'main_dir': ('/proj/src/b.asm', ['db 9', 'b_lbl:']),
               'cwd_run': ('/proj/run/b.asm', ['db 8', 'b_lbl:'])},
        idir='/proj/inc'),
    'depth3_first_last': dict(
        main='/proj/src/main.asm',
        fixed={
            '/proj/src/main.asm': ['include one.asm', 'main:', 'li x5, K0', 'include "sub/two.asm"'],
            '/proj/src/one.asm': ['ONE = 7', 'one:', 'addi x3, x0, ONE'],
            '/proj/src/sub/two.asm': ['two:', "include '../sub/deep/three.asm'", 'j main'],
        },
        var='../sub/deep/three.asm', including='/proj/src/sub/two.asm',
        cands={'adjacent': ('/proj/src/sub/deep/three.asm', ['three:', 'beq x1, x2, one', 'dw two']),
               'idir': ('/proj/inc/../sub/deep/three.asm', None),      # cannot exist: no such dir under /proj/inc/..
               'main_dir': ('/proj/src/three.asm', ['three:', 'db 7']),
               'cwd_run': ('/proj/run/three.asm', ['three:', 'db 6'])},
        idir='/proj/inc'),
    'twice_and_last': dict(
        main='/proj/src/main.asm',
        fixed={
            '/proj/src/main.asm': ['include part.asm', 'mid:', 'li x6, K0', 'include part2.asm   # nested again', 'j mid', 'include "sub/leaf.asm"'],
            '/proj/src/part.asm': ['p1:', 'addi x1, x0, K0'],
            '/proj/src/part2.asm': ['include sub/leaf.asm', 'p2:', 'dw p1'],
        },
        var='sub/leaf.asm', including='/proj/src/main.asm',
        cands={'adjacent': ('/proj/src/sub/leaf.asm', ['addi x3, x3, 1', 'dh 7']),
               'idir': ('/proj/inc/sub/leaf.asm', ['addi x4, x4, 2', 'dh 8', 'dh 9']),
               'main_dir': ('/elsewhere/sub/leaf.asm', ['db 9', 'db 9']),
               'cwd_run': ('/proj/run/sub/leaf.asm', ['db 8', 'db 8'])},
        idir='/proj/inc'),
}


def splice(files, path, var_name, var_lines):
    out = []
    for line in files[path]:
        if line.lower().startswith('include '):
            name = line.split('#')[0].split()[1].strip('"\'')
            if name == var_name:
                out += var_lines
            else:
                import posixpath
                out += splice(files, posixpath.normpath(posixpath.join(posixpath.dirname(path), name)), var_name, var_lines)
        else:
            out.append(line)
    return out


def include_task(tname, kbits, prop='C14'):
    tree = TREES[tname]
    res = TaskResult('include:%s' % tname)
    prof = common.FuncProfile()
    asm = asmshim.load_asm_shimmed()
    real = asmshim.load_asm_pristine()
    roles = [r for r, (pth, lines) in tree['cands'].items() if lines is not None]
    legit = [r for r in ('idir', 'adjacent') if r in roles]

    # ---- spliced reference runs (one per legitimate candidate), real code, same symbols ----
    spliced = {}
    for r in legit:
        text = '\n'.join(splice(tree['fixed'], tree['main'], tree['var'], tree['cands'][r][1]))
        x = core.Explorer()
        lst = []

        def fnS(p, text=text):
            K = p.int('K0', kbits)
            v = vfsmod.VFS('/proj/run')
            v.install(asm)
            Markers.table = {}
            labels, consts = {}, {'K0': K}
            with prof:
                out = asm.assemble(text, constants=consts, labels=labels)
            return out, labels, consts
        for p, kind, val in x.run(fnS):
            if kind == 'limit':
                res.inconc('include %s spliced: %s' % (tname, val))
                continue
            lst.append(dict(pc=pc_formula(p), kind=kind, val=val, text=text))
        res.absorb_stats(x.stats)
        spliced[r] = lst

    # ---- the include tree ----
    x = core.Explorer()
    s = z3.Solver()
    s.set('timeout', 60000)
    n_ok = n_ref = 0

    def fn(p):
        K = p.int('K0', kbits)
        v = vfsmod.VFS('/proj/run')
        for d in CWDS + ['/proj/inc']:
            v.add_dir(d)
        for pth, lines in tree['fixed'].items():
            v.add_text(pth, '\n'.join(lines))
        ex = {}
        for r in roles:
            pth, lines = tree['cands'][r]
            ex[r] = p.bool('exists_' + r)
            import posixpath
            v.add_text(posixpath.normpath(pth), '\n'.join(lines), exists=ex[r])
        sel = p.int('cwd', lo=0, hi=len(CWDS) - 1)
        for i, d in enumerate(CWDS):
            if sel == i:
                v.cwd = d
        use_i = p.bool('use_i')
        idirs = [tree['idir']] if use_i else []
        v.install(asm)
        Markers.table = {}
        labels, consts = {}, {'K0': K}
        p.notes.update(ex=ex, cwd=v.cwd, use_i=use_i, idirs=idirs, K=K)
        with prof:
            out = asm.assemble(tree['main'], constants=consts, labels=labels, include_dirs=list(idirs))
        return out, labels, consts

    def same_result(a, b):
        (oa, la, ca), (ob, lb, cb) = a, b
        if set(la) != set(lb) or set(ca) != set(cb):
            return z3.BoolVal(False)
        conds = [seg_equal(SymBytes.of(oa).segs, SymBytes.of(ob).segs)]
        conds += [bool_z3(la[k] == lb[k]) for k in la]
        conds += [bool_z3(ca[k] == cb[k]) for k in ca]
        return z3.And(*conds)

    for p, kind, val in x.run(fn):
        if kind == 'limit':
            res.inconc('include %s: %s' % (tname, val))
            continue
        model = p.witness()
        exv = {r: core.concrete(b, model) for r, b in p.notes['ex'].items()}
        usei = core.concrete(p.notes['use_i'], model)
        kv = core.concrete(p.notes['K'], model)
        got = _real_tree(real, tree, exv, p.notes['cwd'], [tree['idir']] if usei else [], kv)
        if kind == 'ok':
            symc = ('ok', concretize(val[0], model), {k: core.concrete(v, model) for k, v in val[1].items()})
        else:
            symc = ('exc', type(val).__name__)
        if symc[0] != got[0] or (symc[0] == 'ok' and symc[1:] != got[1:3]) or (symc[0] == 'exc' and symc[1] != got[1]):
            res.inconc('include %s: witness replay mismatch %r vs %r' % (tname, symc[:2], got[:2]))
            continue
        res['validated'] += 1
        if len(res['samples']) < 2:
            res['samples'].append(dict(tree=tname, exists=exv, cwd=p.notes['cwd'], use_i=usei, K0=kv,
                                       outcome=[got[0], got[1].hex() if got[0] == 'ok' else got[1]]))
        pc = pc_formula(p)
        ex = p.notes['ex']
        avail = {'adjacent': ex['adjacent'].b if 'adjacent' in ex else z3.BoolVal(False),
                 'idir': z3.And(ex['idir'].b, p.notes['use_i'].b) if 'idir' in ex else z3.BoolVal(False)}
        # acceptable: some legitimately found candidate's spliced program has the same result;
        # or no legitimate candidate exists and the program is refused
        alts = []
        for r in legit:
            for sp in spliced[r]:
                if sp['kind'] != kind:
                    continue
                if kind == 'exc':
                    alts.append(z3.And(avail[r], sp['pc']))
                else:
                    alts.append(z3.And(avail[r], sp['pc'], same_result(val, sp['val'])))
        none_avail = z3.Not(z3.Or(*[avail[r] for r in legit]))
        if kind == 'exc':
            n_ref += 1
            alts.append(none_avail)
        else:
            n_ok += 1
        ok = z3.Or(*alts) if alts else z3.BoolVal(False)
        r, mdl = p.sat(z3.Not(ok))
        if r == 'sat':
            exv = {rr: core.concrete(b, mdl) for rr, b in ex.items()}
            usei = core.concrete(p.notes['use_i'], mdl)
            kv = core.concrete(p.notes['K'], mdl)
            idirs = [tree['idir']] if usei else []
            got = _real_tree(real, tree, exv, p.notes['cwd'], idirs, kv)
            # concrete oracle: spliced programs of the legitimately available candidates
            okc = False
            av = [rr for rr in legit if exv.get(rr) and (rr != 'idir' or usei)]
            for rr in av:
                text = '\n'.join(splice(tree['fixed'], tree['main'], tree['var'], tree['cands'][rr][1]))
                want = _real_text(real, text, kv)
                if want[0] == got[0] and (want[0] == 'exc' or want[1:3] == got[1:3]):
                    okc = True
            if not av and got[0] == 'exc':
                okc = True
            setting = dict(tree=tname, exists=exv, cwd=p.notes['cwd'], include_dirs=idirs, K0=kv)
            if okc:
                res.inconc('include %s: counterexample %r did not reproduce' % (tname, setting))
            else:
                path = common.write_replay(prop, 'include_%s' % tname, dict(kind='include', property=prop, setting=setting,
                                           files={k: v for k, v in tree['fixed'].items()}, candidates={k: v[0] for k, v in tree['cands'].items()},
                                           what='result differs from every legitimately spliced program', real=[got[0], got[1].hex() if got[0] == 'ok' else got[1:3]]))
                res['violations'].append(dict(harness='include', tree=tname, kind='not-the-spliced-program', setting=setting,
                                              real=[got[0], got[1].hex() if got[0] == 'ok' else got[1:3]], replay=path))
                res.oblig(False)
        else:
            res.oblig(True if r == 'unsat' else None, 'unknown include %s' % tname)
    if n_ok == 0:
        res['vacuity'].append('include %s: never assembled' % tname)
    if n_ref == 0:
        res['vacuity'].append('include %s: never refused' % tname)
    res.absorb_stats(x.stats)
    res['functions'] = prof.names()
    return res


def _real_text(real, text, kv):
    labels, consts = {}, {'K0': kv}
    try:
        out = real.assemble(text, constants=consts, labels=labels)
        return ('ok', bytes(out), labels)
    except Exception as e:
        return ('exc', type(e).__name__, str(e)[:160])


def _real_tree(real, tree, exv, cwd, idirs, kv):
    import os
    import posixpath
    import shutil
    import tempfile
    root = tempfile.mkdtemp(prefix='bbverif_')
    old = os.getcwd()
    try:
        for d in CWDS + ['/proj/inc']:
            os.makedirs(root + d, exist_ok=True)
        for pth, lines in tree['fixed'].items():
            os.makedirs(os.path.dirname(root + pth), exist_ok=True)
            with open(root + pth, 'w') as f:
                f.write('\n'.join(lines))
        for r, (pth, lines) in tree['cands'].items():
            if lines is not None and exv.get(r):
                q = root + posixpath.normpath(pth)
                os.makedirs(os.path.dirname(q), exist_ok=True)
                with open(q, 'w') as f:
                    f.write('\n'.join(lines))
        os.chdir(root + cwd)
        labels, consts = {}, {'K0': kv}
        try:
            out = real.assemble(root + tree['main'], constants=consts, labels=labels, include_dirs=[root + d for d in idirs])
            return ('ok', bytes(out), labels)
        except Exception as e:
            return ('exc', type(e).__name__, str(e)[:160])
    finally:
        os.chdir(old)
        shutil.rmtree(root, ignore_errors=True)

"""One run_<id>(tier, seed, t0) per property: builds the task list, runs it on all cores,
writes the evidence and returns the exit status."""
from . import common
from .common import finish, pmap, load_known, STUBS_ASM
from spec import isa

W_QUICK = dict(reg=12, small=12, imm=40)
W_THOR = dict(reg=20, small=20, imm=64, second_solver=True)


def _w(tier):
    return W_THOR if tier == 'thorough' else W_QUICK


def _wtext(w):
    return 'registers signed %d-bit, fence/aq/rl signed %d-bit, immediates signed %d-bit' % (w['reg'], w['small'], w['imm'])


def run_C01(tier, seed, t0):
    w = _w(tier)
    known = load_known('C01')
    specs = [('harness.enc', 'enc_task', ('C01', m, w, known)) for m in isa.BASE]
    specs += [('harness.pipe', 'text_task', ('C01', m, w, False, known)) for m in isa.BASE]
    from .pipe import ALIAS_PROGRAMS
    specs += [('harness.pipe', 'alias_program_task', (k, False)) for k in range(len(ALIAS_PROGRAMS))]
    specs += [('harness.pipe', 'regtable_task', ())]
    res = pmap(specs)
    return finish('C01', tier, seed, res, t0,
                  bounds=dict(mnemonics=len(isa.BASE), operand_widths=_wtext(w),
                              text_route='one-instruction programs through the whole real assemble(), operands via constants=/@markers',
                              programs='%d programs of 5-6 instructions whose register operands mix alias constants and literal spellings (all 32 registers each, symbolic): every word names the registers of its own line' % len(ALIAS_PROGRAMS),
                              register_spellings='every key of REGISTERS and 0x/0b/0o numerals compared with the ABI table'),
                  stubs=STUBS_ASM,
                  assumptions=['spec/isa.py transcribes the field diagrams of the unprivileged ISA manual v20191213 correctly (validated against the repository test vectors)'] + STUBS_ASM,
                  outside=['operands that are not integers or register spellings (floats, None)'])


def run_C02(tier, seed, t0):
    w = _w(tier)
    known = load_known('C02')
    specs = [('harness.enc', 'enc_task', ('C02', m, w, known)) for m in isa.RVC]
    specs += [('harness.enc', 'reverse_task', (m, known)) for m in isa.RVC]
    specs += [('harness.enc', 'partition_task', ())]
    specs += [('harness.pipe', 'text_task', ('C02', m, w, False, known)) for m in isa.RVC]
    res = pmap(specs)
    return finish('C02', tier, seed, res, t0,
                  bounds=dict(mnemonics=len(isa.RVC), operand_widths=_wtext(w),
                              reverse='all 65536 halfwords: one symbolic 16-bit h per class, assumed legal non-hint non-reserved by spec/isa.py'),
                  stubs=STUBS_ASM,
                  assumptions=['spec/isa.py transcribes ch. 16.8 (RVC listings) correctly; legality = valid, non-hint, non-reserved on RV32'] + STUBS_ASM,
                  outside=['floating-point RVC encodings (not integer, not supported by the assembler)'])


def run_C06(tier, seed, t0):
    w = _w(tier)
    known = load_known('C06')
    specs = [('harness.enc', 'enc_task', ('C06', m, w, known)) for m in isa.T]
    specs += [('harness.pipe', 'text_task', ('C06', m, w, False, known)) for m in isa.T]
    # the accepted / refused sets must be the same with -c
    specs += [('harness.pipe', 'text_task', ('C06', m, w, True, known)) for m in isa.BASE]
    res = pmap(specs)
    return finish('C06', tier, seed, res, t0,
                  bounds=dict(mnemonics=len(isa.T), operand_widths=_wtext(w)),
                  stubs=STUBS_ASM,
                  assumptions=['documented operand sets = DESIGN.md appendix A (docs/instruction_reference.rst + ISA manual); CSR numbers 0x800..0xfff are a don\'t-care band'] + STUBS_ASM,
                  outside=['non-integer operands'])


def run_C07(tier, seed, t0):
    bits = 64 if tier == 'thorough' else 34
    specs = [('harness.kernels', 'hilo_task', (bits,)), ('harness.kernels', 'sign_extend_task', ())]
    from .pipe import HILO_TEMPLATES
    specs += [('harness.pipe', 'hilo_pairs_task', (k, bits)) for k in range(len(HILO_TEMPLATES))]
    # the same pairs executed (any instruction length): compression off and on, sp included
    from .pipe import HILO_EXEC
    specs += [('harness.pipe', 'hilo_exec_task', (k, bits, c)) for k in range(len(HILO_EXEC)) for c in (False, True)]
    # call / tail are auipc+jalr (%hi/%lo) pairs: label and constant targets, both modes
    for nm in ('call', 'tail'):
        for d in ('fwd', 'bwd', 'abs'):
            for c in (False, True):
                specs.append(('harness.pseudo', 'pseudo_task', (nm, d, c, 34, 23, 'C07')))
    # %hi/%lo of labels and %position in whole programs (values recomputed from the output)
    from . import templates
    for name, lines in templates.CURATED:
        if name.startswith(('hilo_', 'lw_lo_label', 'same_text_twice')):
            for c in (False, True):
                specs.append(('harness.layout', 'layout_task', ('C08', name, lines, c, 23, 34, 600, 'C07')))
    res = pmap(specs)
    return finish('C07', tier, seed, res, t0,
                  bounds=dict(value='signed %d-bit (covers every 32-bit value in all negative / >2^31 spellings)' % bits),
                  stubs=STUBS_ASM, assumptions=STUBS_ASM,
                  outside=['values beyond the stated width'])


def run_C05(tier, seed, t0):
    from .pseudo import ALL, LABELLED
    li_bits = 40 if tier == 'thorough' else 34
    gap_bits = 23 if tier == 'thorough' else 22
    specs = []
    for name in ALL:
        for d in (['fwd', 'bwd', 'ctx', 'abs', 'al-fwd', 'al-bwd'] if name in LABELLED else (['-', 'fwd', 'bwd'] if name == 'li' else ['-'])):
            for c in (False, True):
                specs.append(('harness.pseudo', 'pseudo_task', (name, d, c, li_bits, gap_bits)))
    # several pseudo-instructions in one program, register operands a mix of alias constants and literals
    specs += [('harness.pipe', 'alias_program_task', (k, False)) for k in (2, 3)]
    res = pmap(specs)
    return finish('C05', tier, seed, res, t0,
                  bounds=dict(pseudo_instructions=len(ALL), registers='all 32 x 32 (symbolic aliases)',
                              li_value='signed %d-bit' % li_bits, target_distance='forward and backward, gap 0..2^%d bytes' % gap_bits,
                              register_file='arbitrary (z3 array), load address arbitrary even 32-bit', modes='compression off and on'),
                  stubs=STUBS_ASM + ['virtual file system: include_bytes of a file with symbolic size (the gap)'],
                  assumptions=['spec/sem.py single-step semantics and RVC expansion follow the ISA manual',
                               'documented effects = DESIGN.md appendix B'] + STUBS_ASM,
                  outside=['gaps larger than the bound', 'memory effects (no pseudo-instruction touches memory)'])


def _comp(prop, tier, seed, t0, text, extra_specs=()):
    w = _w(tier)
    known = load_known(prop)
    specs = [('harness.comp', 'comp_task', (prop, m, w, known)) for m in isa.BASE]
    pspecs, ntl, gap_bits = _product_specs(prop, tier, seed)
    specs += pspecs
    if prop in ('C12', 'C20'):
        # pseudo-instructions whose register operands are alias constants, with -c: accepted, and what they do is
        # what they do without -c (the C05 harness, reported here)
        from .pseudo import ALL as _PS, LABELLED as _PL
        specs += [('harness.pseudo', 'pseudo_task', (nm, '-', True, 34, 22, prop)) for nm in _PS if nm not in _PL]
    text += '; plus %d layout templates (natural alignment: no odd-sized data or odd align in front of code) in both modes with shared gaps (0..2^%d) and li values' % (ntl, gap_bits)
    res = pmap(specs)
    return finish(prop, tier, seed, res, t0,
                  bounds=dict(mnemonics=len(isa.BASE), operand_widths=_wtext(w),
                              programs='single-instruction programs, operands as constants/aliases and as literal numerals; ' + text),
                  stubs=STUBS_ASM,
                  assumptions=['spec/sem.py (step semantics, RVC expansion, legality) follows the ISA manual'] + STUBS_ASM,
                  outside=['programs longer than the templates', 'operands that are not integers'])


def run_C04(tier, seed, t0):
    return _comp('C04', tier, seed, t0, 'off/on product with shared symbols: legal RVC halfword and equal architectural effect for every register file and pc')


def run_C12(tier, seed, t0):
    return _comp('C12', tier, seed, t0, 'off/on product: no accepting off-path is jointly satisfiable with a refusing on-path')


def run_C20(tier, seed, t0):
    return _comp('C20', tier, seed, t0, 'every path that stays at 32 bits is outside the quantifier-free eligibility predicate')


def _layout_specs(prop, tier, seed):
    from . import templates
    tl = list(templates.CURATED) + templates.adjacency() + templates.between() + templates.data_align() + templates.SYMBOLIC_ALIGN
    tl += templates.random_programs(seed, 400 if tier == 'thorough' else 60)
    gap_bits, k_bits, max_paths = 23, 34, 600
    if tier == 'thorough':
        tl += templates.enumerated(2, seed, 60)
        gap_bits, k_bits, max_paths = 26, 40, 3000
    specs = []
    tl = [(n, l) for n, l in tl if templates.relevant(prop, l)]
    for name, lines in tl:
        for c in (False, True):
            specs.append(('harness.layout', 'layout_task', (prop, name, lines, c, gap_bits, k_bits, max_paths)))
    return specs, dict(templates=len(tl), random_programs='%d seeded by VERIF_SEED=%d (each decided for all values of its symbols)' % (400 if tier == 'thorough' else 60, seed), template_lines='<= %d' % max(len(l) for _, l in tl),
                       gaps='each gap 0..2^%d bytes (symbolic file size)' % gap_bits,
                       li_values='signed %d-bit' % k_bits, modes='compression off and on',
                       alignments='1,2,3,4,5,8,16,64,4096; two templates with symbolic alignments 1..16 and gaps < 256')


LAYOUT_STUBS = STUBS_ASM + ['virtual file system: include_bytes of a file whose size is a symbolic integer (the gap); content opaque']
LAYOUT_OUTSIDE = ['programs other than the templates (longer programs, include trees)', 'gaps beyond the stated size']


def _run_layout(prop, tier, seed, t0, extra_specs=(), extra_bounds=None):
    specs, bounds = _layout_specs(prop, tier, seed)
    specs = list(extra_specs) + specs
    if extra_bounds:
        bounds.update(extra_bounds)
    res = pmap(specs)
    return finish(prop, tier, seed, res, t0, bounds=bounds, stubs=LAYOUT_STUBS,
                  assumptions=['spec/sem.py decodes branch / jal / auipc+jalr targets per the ISA manual',
                               'label offsets are recomputed from the chunk list handed to the real resolve_blobs (oracle 4.6)'] + LAYOUT_STUBS,
                  outside=LAYOUT_OUTSIDE)


def run_C03(tier, seed, t0):
    # the labels argument: a dictionary that already holds the labels of an earlier program
    from .purity import SEQS
    extra = [('harness.purity', 'sequence_task', (i, 'shared-dicts', 'C03')) for i, q in enumerate(SEQS)
             if q[0] in ('ok_then_ok', 'same_names', 'compress_then_plain', 'compress_both_reordered_labels')]
    # the -l file of the command line: one line per label (labels that share an offset included) with the final address
    extra += [('harness.cli', 'cli_task', (pg, av, 'C03')) for pg in ('ok_only', 'golden_align', 'li_label', 'labels_only') for av in ('o_l', 'l_hex')]
    return _run_layout('C03', tier, seed, t0, extra, dict(labels_argument='three two-call histories that pass the same labels dictionary to both calls',
                                                          label_file='four programs (two with labels sharing an offset) through cli_main with -l, with and without --hex-offset and -c'))


def run_C08(tier, seed, t0):
    # label arithmetic when the caller's labels dictionary already holds the same names from an earlier program
    from .purity import SEQS
    extra = [('harness.purity', 'sequence_task', (i, 'shared-dicts', 'C08')) for i, q in enumerate(SEQS)
             if q[0] in ('same_names', 'compress_then_plain', 'compress_both_reordered_labels')]
    return _run_layout('C08', tier, seed, t0, extra, dict(labels_argument='two-call histories that pass the same labels dictionary to both calls'))


def run_C09(tier, seed, t0):
    ns = list(range(1, 65)) + [100, 128, 256, 512, 1000, 1024, 4096, 4097, 65536]
    pb = 24 if tier == 'thorough' else 20
    extra = [('harness.kernels', 'align_task', (ns[i::16], pb)) for i in range(16)]
    extra += [('harness.include', 'include_task', (t_, 34, 'C09')) for t_ in ('twice_and_last', 'depth3_first_last')]
    # the binary a user gets is the -o file: re-assembling a shorter program to the same path must not leave bytes behind
    from .cli import HISTORIES as _CH
    extra += [('harness.cli', 'cli_task', ('hist:' + h, av, 'C09')) for h in _CH for av in ('default', 'o')]
    if tier == 'thorough':
        extra.append(('harness.kernels', 'align_symN_task', (64, 16)))
    return _run_layout('C09', tier, seed, t0, extra, dict(align_kernel='Align.resolution_size for pos 0..2^%d and N in 1..64, 100, 128, ..., 65536' % pb))


def _product_specs(prop, tier, seed):
    from . import templates
    tl = list(templates.CURATED) + templates.adjacency() + templates.between()
    tl += templates.random_programs(seed, 400 if tier == 'thorough' else 60)
    gap_bits, k_bits, max_paths = 23, 34, 600
    if tier == 'thorough':
        tl += templates.enumerated(2, seed, 60)
        gap_bits, k_bits, max_paths = 26, 40, 3000
    tl = [(n, l) for n, l in tl if templates.natural_alignment(l)]
    if prop == 'C12':
        tl += templates.C12_ONLY
    return [('harness.layout', 'product_task', (prop, n, l, gap_bits, k_bits, max_paths)) for n, l in tl], len(tl), gap_bits


def run_C10(tier, seed, t0):
    from .data import directive_programs
    bits = 96 if tier == 'thorough' else 72
    specs = [('harness.data', 'directive_task', (n, s, v, bits)) for n, s, v in directive_programs()]
    specs += [('harness.data', 'include_bytes_task', (k,)) for k in range(3)]
    specs += [('harness.data', 'include_bytes_multi_task', ())]
    from .strings import string_specs, SHAPES_QUICK, SHAPES_THOROUGH
    specs += string_specs(tier)
    from .strings import symfile_specs
    specs += symfile_specs('string')       # the same through read_lines and the whole assemble(), source in a file
    from .history import BY_PROP as _HIST
    specs += [('harness.history', 'history_task', ('C10', sn, 40 if tier == 'thorough' else 34)) for sn in _HIST['C10']]
    specs += [('harness.strings', 'string_task', (tier,))]
    res = pmap(specs)
    shapes = SHAPES_THOROUGH if tier == 'thorough' else SHAPES_QUICK
    return finish('C10', tier, seed, res, t0,
                  bounds=dict(values='signed %d-bit through db/dh/dw/dd, pack [<>][bBhHiIlLqQ], bytes/shorts/ints/longs/longlongs' % bits,
                              include_bytes='file present in any subset of {source dir, -i dir, working dir} (symbolic bits), working directory one of 4, source as path or text',
                              string='text shapes %s: every unmarked position is a symbolic code point 0..0x10FFFF (no surrogates, no line-break characters), the digit positions of the long escapes are symbolic ASCII; real lex_tokens/parse_item/String.size/resolve_strings run on them, compared with a character-level reference (escape table of the Python language reference + RFC 3629)' % ', '.join('%s=%s' % (k, ''.join(c if isinstance(c, str) and len(c) == 1 else ('?' if c is None else 'a') for c in v[1])) for k, v in shapes.items())),
                  stubs=STUBS_ASM + ['virtual file system (os.path.exists/getsize/abspath/getcwd, open) with symbolic existence bits',
                                     'str.encode / bytes.decode on symbolic text: Python models of the latin-1, ascii, utf-8 and unicode_escape codecs and the strict / backslashreplace / ignore / replace handlers (symx/symstr.py); every path witness is replayed through the real codecs',
                                     're on symbolic text: backtracking matcher over re._parser parse trees asking the solver about character classes'],
                  assumptions=STUBS_ASM + ['the text after "string " contains no \\N{name} escape (needs the Unicode name database)',
                                           'a malformed escape (truncated \\x \\u \\U, trailing backslash, value above 0x10FFFF, a surrogate) is outside the claim: nothing is documented for it'],
                  outside=['string literals longer than / shaped differently from the listed shapes', '\\N{name} escapes', 'malformed escapes', 'real OS semantics (symlinks, permissions)'])


def run_C11(tier, seed, t0):
    w = _w(tier)
    bits = 96 if tier == 'thorough' else 64
    specs = []
    for m in isa.T:
        for c in ((False, True) if not m.startswith('c.') else (False,)):
            specs.append(('harness.equiv', 'equiv_task', ('C11', m, w, 'const-vs-literal', c)))
    specs.append(('harness.equiv', 'constdef_task', (bits,)))
    specs += [('harness.equiv', 'clash_task', (w_, c)) for w_ in ('START', 'BUF') for c in (False, True)]
    specs.append(('harness.equiv', 'charlit_table_task', ()))
    from .data import directive_programs
    dp = {n: (s, v) for n, s, v in directive_programs()}
    for d in ('db', 'dh', 'dw', 'dd'):
        specs.append(('harness.equiv', 'data_equiv_task', (d, 72)))
    specs += [('harness.pipe', 'hilo_pairs_task', (k, 34)) for k in (0, 2, 5)]
    to = 120 if tier == 'thorough' else 45
    for f in ('charlit', 'charlit_operand'):
        specs.append(('harness.xhair', 'xhair_task', ('C11', 'charlit.py', to, [f, f + '__mustfail'], [f])))
    from .pipe import ALIAS_PROGRAMS
    specs += [('harness.pipe', 'alias_program_task', (k, False)) for k in range(len(ALIAS_PROGRAMS))]
    specs.append(('harness.pipe', 'regtable_task', ()))      # spelling tables: expressions, character literals inside expressions
    res = pmap(specs)
    return finish('C11', tier, seed, res, t0,
                  bounds=dict(operand_positions='every operand of every mnemonic: constant / register alias vs literal numeral, compression off and on, ' + _wtext(w),
                              expressions='A symbolic signed %d-bit; one definition per documented operator (+ - * // %% << >> & | ^ ~ unary -, parentheses, hex and binary literals, earlier constants by name); // and %% decided for |A| < 2^23' % bits,
                              character_literals='finite table of the 94 printable ASCII characters (compared concretely, like the register table) + CrossHair search over one symbolic character (bug-hunting only)',
                              data_and_modifiers='db/dh/dw/dd with a constant vs a literal; constants inside %hi/%lo/%position (three pair templates)'),
                  stubs=STUBS_ASM,
                  assumptions=['reference evaluation of the operators on 160-bit two\'s complement (no wrap within the stated width)'] + STUBS_ASM,
                  outside=['decimal/hex/binary spellings of one number and operator precedence (CPython\'s eval)',
                           'character literals beyond printable ASCII; a lone backslash literal (escape syntax, don\'t-care)'])


def run_C13(tier, seed, t0):
    from . import xhair
    w = _w(tier)
    specs = []
    to = 300 if tier == 'thorough' else 150
    slow = {'sepchars_insn', 'sepchars_bytes', 'sepchars_amo'}
    files = ['lexer.py', 'program_t.py' if tier == 'thorough' else 'program.py']
    ncond = 0
    for fn in files:
        for func, lineno, doc in xhair.conditions(fn):
            if '__' in func:
                continue
            if (func in slow or func.startswith('commentq_')) and tier != 'thorough':
                continue
            if func == 'sepchars_amo':
                continue      # five operands x two symbolic separator characters: CrossHair cannot even meet the precondition in 300 s
            ncond += 1
            # the per-line conditions of lexer.py are a second engine beside harness/lexsym.py (which decides the same
            # freedoms over longer symbolic text): a non-confirmation there is a note, not an inconclusive result
            specs.append(('harness.xhair', 'xhair_task', ('C13', fn, to, [func, func + '__mustfail'], [func] if fn == 'lexer.py' else ())))
    for m in ('jalr', 'lb', 'lh', 'lw', 'lbu', 'lhu', 'sb', 'sh', 'sw', 'c.lw', 'c.sw'):
        for c in ((False, True) if not m.startswith('c.') else (False,)):
            specs.append(('harness.equiv', 'equiv_task', ('C13', m, w, 'imm(reg)', c)))
    specs.append(('harness.pipe', 'regtable_task', ()))
    from .lexsym import lexsym_specs, BASES, KEYWORDS
    lex = lexsym_specs(tier)
    specs += lex
    res = pmap(specs)
    return finish('C13', tier, seed, res, t0,
                  bounds=dict(crosshair_conditions=ncond,
                              lexer='per line kind (instruction, label, constant, bytes, pack, dw, align, lw imm(reg), %hi): trailing comment with symbolic text (<= 8 characters, no newline), indentation (<= 6 spaces, <= 3 tabs), separator runs (<= 2 each of space, comma, tab)',
                              lexer_symbolic_text='engine E1 on the real lex_tokens, %d tasks: base lines %s; trailing / tight / whole-line comment of %d arbitrary characters (path budget 4000 per task, exhaustion is a note), comments starting with a directive word (%s) followed by 2 arbitrary characters, indentation of 3 symbolic blanks, 2 symbolic separator characters' % (len(lex), ', '.join(BASES), 12 if tier == 'thorough' else 8, ', '.join(KEYWORDS)),
                              program='an 11-line program with every item kind: blank / whitespace-only lines and whole-line comments (concrete text) inserted at each of the 12 positions with symbolic counts, each line indented by symbolic counts and given a trailing comment',
                              base_offset='imm(reg) vs reg, imm for the 11 base+offset mnemonics with symbolic operands (%s), compression off and on' % _wtext(w),
                              registers='finite table: every spelling of REGISTERS and 0x/0b/0o numerals in each operand position',
                              per_condition_timeout_s=to),
                  stubs=STUBS_ASM,
                  assumptions=['CrossHair 0.0.110 verdict "Confirmed over all paths" is taken as discharged within the stated bounds'] + STUBS_ASM,
                  outside=['numeric base spellings of one number (behind CPython eval/int)',
                           'characters that str.splitlines treats as line ends inside comments',
                           'symbolic insertion positions and symbolic comment text at program level (CrossHair does not confirm them)',
                           'programs other than the template'],
                  extra=dict(engine_note='E2 CrossHair for the textual conditions, E1 symx for imm(reg) and operands'))


def run_C14(tier, seed, t0):
    from .include import TREES
    kbits = 40 if tier == 'thorough' else 34
    specs = [('harness.include', 'include_task', (t, kbits)) for t in TREES]
    specs += [('harness.data', 'include_bytes_task', (k,)) for k in range(3)]
    from .history import BY_PROP as _HIST
    specs += [('harness.history', 'history_task', ('C14', sn, 40 if tier == 'thorough' else 34)) for sn in _HIST['C14']]
    specs += [('harness.cli', 'cli_task', ('nested_i', 'i_vendor', 'C14')), ('harness.cli', 'cli_task', ('own_dir_i', 'i_src', 'C14')),
              ('harness.cli', 'cli_task', ('deep_i', 'o', 'C14'))]
    res = pmap(specs)
    return finish('C14', tier, seed, res, t0,
                  bounds=dict(histories='two assemble() calls in one process with the file system edited in between, second call compared with the same call in a fresh process for every 34/40-bit K0, both modes: ' + ', '.join(_HIST['C14']),
                              trees='depth 2 (include in the middle) and depth 3 (include first and last, quoted names, ../ in the name)',
                              candidates='the included file exists in any subset of {next to the including file, -i directory, next to the main file, working directory} (symbolic bits)',
                              working_directory='one of 4 (symbolic selector)', operands='one symbolic %d-bit constant used in main and included files' % kbits,
                              include_bytes='three include_bytes settings shared with C10'),
                  stubs=STUBS_ASM + ['virtual file system with symbolic existence bits and working directory'],
                  assumptions=['precedence between a -i directory and the adjacent directory is not fixed by the property: either spliced program is accepted'] + STUBS_ASM,
                  outside=['real OS semantics (symlinks, permissions)', 'indented include lines', 'sources passed as text (no directory of their own)'])


def run_C15(tier, seed, t0):
    from .errors import FAULTS
    specs = []
    for f in FAULTS:
        combos = [(0, 'text'), (len(f[1]) % 9 + 1, 'text'), (10, 'text'), (1, 'included'), (7, 'after-include'), (5, 'blanks'), (5, 'blanks-file'), (1, 'blanks-included')]
        if tier == 'thorough':
            combos = [(p, 'text') for p in range(0, 11)] + [(p, 'file') for p in (0, 5, 10)] + [(p, 'included') for p in range(3)] + [(p, 'after-include') for p in (4, 7, 10)] + [(p, 'blanks') for p in (0, 5, 10)] + [(p, 'blanks-file') for p in (0, 5, 10)] + [(p, 'blanks-included') for p in range(4)]
        for pos, where in combos:
            if f[0] in ('include_missing', 'include_bytes_missing') and where == 'text' and pos not in (0, 10):
                pass
            for c in (False, True):
                specs.append(('harness.errors', 'error_task', (f[0], pos, where, c)))
    from .history import BY_PROP as _HIST
    specs += [('harness.history', 'history_task', ('C15', sn, 40 if tier == 'thorough' else 34)) for sn in _HIST['C15']]
    from .strings import symfile_specs
    specs += symfile_specs('error')        # an error directive whose message is symbolic text, in a file
    res = pmap(specs)
    return finish('C15', tier, seed, res, t0,
                  bounds=dict(histories='two assemble() calls in one process with the file system edited in between, second call compared with the same call in a fresh process for every 34/40-bit K0, both modes: ' + ', '.join(_HIST['C15']),
                              fault_lines=len(FAULTS), placements='first / middle / last line of a 10-line program and inside an included file' if tier != 'thorough' else 'every position of a 10-line program, as text and as file, and three positions of an included file',
                              symbolic='the faulty operand ranges over all values outside its legal set (signed 40-bit / 12-bit); the other operands (an I-immediate and a li value) are symbolic legal values',
                              modes='compression off and on'),
                  stubs=STUBS_ASM + ['virtual file system'],
                  assumptions=['a program that is not refused carries no obligation here'] + STUBS_ASM,
                  outside=['duplicate label definitions (the assembler does not refuse them)', 'lines with a wrong number of operands (not in the property\'s list of fault classes)'])


def run_C16(tier, seed, t0):
    from .purity import PROGRAMS, SEQS
    specs = [('harness.purity', 'frame_task', (i, c)) for i in range(len(PROGRAMS)) for c in (False, True)]
    specs += [('harness.purity', 'sequence_task', (i, m)) for i in range(len(SEQS)) for m in ('fresh', 'first-dicts', 'no-dicts')]
    # the same dictionary objects for both calls: only where the second program defines every name it
    # uses (what the caller leaves in a dictionary it passes again is otherwise a legitimate input)
    specs += [('harness.purity', 'sequence_task', (i, 'shared-dicts')) for i, q in enumerate(SEQS)
              if q[0] in ('ok_then_ok', 'fail_then_ok', 'same_names', 'compress_then_plain', 'compress_both_reordered_labels', 'label_then_const_li')]
    specs += [('harness.purity', 'incdirs_task', (s,)) for s in ('B', 'C')]
    specs += [('harness.purity', 'hashseed_task', (t_,)) for t_ in ('depth2_middle', 'twice_and_last')]
    specs += [('harness.purity', 'hashseed_programs_task', ())]
    from .history import BY_PROP as _HIST
    specs += [('harness.history', 'history_task', ('C16', sn, 40 if tier == 'thorough' else 34)) for sn in _HIST['C16']]
    res = pmap(specs)
    return finish('C16', tier, seed, res, t0,
                  bounds=dict(histories='two assemble() calls in one process with the file system edited in between, second call compared with the same call in a fresh process for every 34/40-bit K0, both modes: ' + ', '.join(_HIST['C16']),
                              frame='%d symbolic programs x 2 modes: after every path (failing ones included) the structural fingerprint of everything reachable from the module (tables, partials, class dicts, function defaults, closures) is unchanged and holds no symbolic value' % len(PROGRAMS),
                              sequences='%d two-call histories x 4 dictionary-passing modes (fresh, dictionaries to the first call only, no dictionaries at all, the same dictionary objects for both calls): second result compared with the result of the second program alone for all values of both programs\' independent symbols (product query); plus two projects assembled with one shared include_dirs list over a virtual file system (the caller\'s list must be unchanged, the second project\'s result must not depend on the first)' % len(SEQS)),
                  stubs=STUBS_ASM,
                  assumptions=['inductive step: if one call from the import-time state leaves the state unchanged, histories of any length do'] + STUBS_ASM,
                  outside=['PYTHONHASHSEED independence beyond the include-tree settings replayed under four seeds (a differential run across processes, not a solver verdict)', 'state outside the asm module (logging configuration, os)'])


def run_C17(tier, seed, t0):
    from .cli import PROGRAMS, ARGVS, HISTORIES
    combos = [(pg, av) for pg in PROGRAMS for av in ARGVS]
    hist = [('hist:' + h, av) for h in HISTORIES for av in (('default', 'o', 'o_l', 'l_hex') if tier != 'thorough' else ARGVS)]
    if tier != 'thorough':
        keep = {('range', a) for a in ARGVS} | {(pg, 'o_l') for pg in PROGRAMS} | {(pg, 'l_hex') for pg in PROGRAMS} | \
               {('data', 'o_hex_bad'), ('li_label', 'hex_bad_l'), ('range', 'hex_sym'), ('li_label', 'hex_sym_l'), ('nolabels', 'defs_v'), ('nolabels', 'hex_sym_l'), ('needs_i', 'i_two'), ('needs_i', 'i_two_dup'), ('nested_i', 'i_vendor'), ('own_dir_i', 'i_src'), ('golden_align', 'o_l'), ('golden_align', 'l_hex'), ('golden_far', 'o_l'), ('golden_far', 'l_hex'), ('range', 'hex_dec'), ('ok_only', 'hex_bin'), ('needs_i', 'i_dir'), ('needs_i', 'default'), ('ok_only', 'hex_sym'), ('included', 'i_dir'), ('ok_only', 'defs_v'), ('parse', 'i_bad'), ('li_label', 'default')}
        combos = [c for c in combos if c in keep]
    specs = [('harness.cli', 'cli_task', c) for c in combos + hist]
    res = pmap(specs)
    return finish('C17', tier, seed, res, t0,
                  bounds=dict(programs=len(PROGRAMS), option_sets=len(ARGVS), combinations=len(combos),
                              symbolic='a signed 40-bit operand in the program (decides which pass refuses it), the -c flag, and the value of --hex-offset (32-bit, any spelling)',
                              old_files='bb.out, out.bin, labels.txt and both .hex files exist beforehand',
                              histories='the same command line run twice over a changed source (%s), judged after the second run' % ', '.join('%s: %s then %s' % (h, a, b) for h, (a, b) in HISTORIES.items())),
                  stubs=STUBS_ASM + ['virtual file system recording every open-for-write and write', 'intelhex.bin2hex replaced by a recorder (third-party code)',
                                     'a formatted symbolic integer is a token that records value and format spec', 'logging.basicConfig is a no-op'],
                  assumptions=['the Intel HEX encoding itself is third-party code: only the call (paths, offset, after the binary was written) is checked'] + STUBS_ASM,
                  outside=['Intel HEX content', 'real process exit codes (in-process SystemExit is observed)', 'I/O errors of the operating system'])


DFU_STUBS = ['usb.core / usb.backend: in-memory DfuSe device model (DFU 1.1 state diagram + DfuSe erase 0x41 / set-address 0x21 / download wValue>=2) with monitors',
             'dfu.time.sleep records its argument; dfu.open returns an opaque firmware of the chosen length; dfu.print records lines',
             'dfu.struct.unpack of a status response yields the model\'s symbolic fields; STATUS/STATE_DESCRIPTION lookups with a symbolic key fork over the keys',
             'a DFU_DNLOAD sent while the device is in dfuERROR stalls (USBError), as the DFU specification prescribes']


def run_C18(tier, seed, t0):
    if tier == 'thorough':
        lengths = list(range(0, 3074))
        K = 4
    else:
        lengths = [0, 1, 2, 511, 1022, 1023, 1024, 1025, 1026, 2047, 2048, 2049, 3071, 3072]
        K = 3
    specs = []
    for L in lengths:
        specs.append(('harness.dfu', 'dfu_task', ('C18', L, 'sym' if L <= 1025 and tier != 'thorough' else (L % 4), K, None, 'one')))
        if tier != 'thorough' or L % 64 in (0, 1, 63):
            specs.append(('harness.dfu', 'dfu_task', ('C18', L, L % 4, K, None, 'all')))
    for v in range(4):
        for L in ('capacity', 'capacity-1', 'capacity-1023', 'capacity-1024'):
            specs.append(('harness.dfu', 'dfu_task', ('C18', L, v, 0, None, 'one')))
    res = pmap(specs)
    return finish('C18', tier, seed, res, t0,
                  bounds=dict(lengths='%d concrete lengths (%s) plus capacity, capacity-1, capacity-1023, capacity-1024 for each of the four flash-size variants' % (len(lengths), 'all of 0..3073' if tier == 'thorough' else 'page-boundary cases up to 3 pages'),
                              content='opaque (uninterpreted) firmware bytes', variant='symbolic for short images, each for the capacity cases',
                              timing='poll timeout of every status response symbolic 24-bit; busy polls: one symbolically chosen operation needs 0..%d polls, or every operation needs the same 0..%d polls; device may start in dfuERROR (symbolic)' % (K, K)),
                  stubs=DFU_STUBS,
                  assumptions=['the device model is the contract of DESIGN.md 4.5'] + DFU_STUBS,
                  outside=['images between 3 KiB and the capacity edge cases', 'two or more differently slow operations in one run', 'USB transport errors'])


def run_C19(tier, seed, t0):
    K = 8 if tier == 'thorough' else 5
    specs = [('harness.dfu', 'dfu_task', ('C19', 'oversize', 'sym', 0, None, 'one'))]
    for v in range(4):
        for extra in (1, 2, 511, 1023, 1024, 1025):
            specs.append(('harness.dfu', 'dfu_task', ('C19', 'capacity+%d' % extra, v, 0, None, 'one')))
    for v in range(4):
        # the same through a pipe: the reported file size (0) says nothing about the amount of data
        specs.append(('harness.dfu', 'dfu_task', ('C19', 'capacity+1:pipe', v, 0, None, 'one')))
    for L in ([1, 1025] if tier != 'thorough' else [1, 2, 1023, 1024, 1025, 2048, 2049, 3072, 3073]):
        specs.append(('harness.dfu', 'dfu_task', ('C19', L, L % 4, K, 'single', 'one')))
    res = pmap(specs)
    return finish('C19', tier, seed, res, t0,
                  bounds=dict(oversize='symbolic length > capacity for every variant (one path covers all oversize lengths up to 2^30), plus the concrete lengths capacity+1, +2, +511, +1023, +1024, +1025 for each variant',
                              injection='one device error status (symbolic code 1..15) at a symbolically chosen erase / set-address / write operation of images of 1..3 pages; a second injection cannot occur once the run has stopped',
                              busy='0..%d polls' % K),
                  stubs=DFU_STUBS, assumptions=DFU_STUBS,
                  outside=['longer images', 'USB transport errors'])

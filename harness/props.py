"""One run_<id>(tier, seed, t0) per property: builds the task list, runs it on all cores,
writes the evidence and returns the exit status."""
from . import common
from .common import finish, pmap, load_known, STUBS_ASM
from spec import isa

W_QUICK = dict(reg=12, small=12, imm=40)
W_THOR = dict(reg=20, small=20, imm=64)


def _w(tier):
    return W_THOR if tier == 'thorough' else W_QUICK


def _wtext(w):
    return 'registers signed %d-bit, fence/aq/rl signed %d-bit, immediates signed %d-bit' % (w['reg'], w['small'], w['imm'])


def run_C01(tier, seed, t0):
    w = _w(tier)
    known = load_known('C01')
    specs = [('harness.enc', 'enc_task', ('C01', m, w, known)) for m in isa.BASE]
    specs += [('harness.pipe', 'text_task', ('C01', m, w, False, known)) for m in isa.BASE]
    specs += [('harness.pipe', 'regtable_task', ())]
    res = pmap(specs)
    return finish('C01', tier, seed, res, t0,
                  bounds=dict(mnemonics=len(isa.BASE), operand_widths=_wtext(w),
                              text_route='one-instruction programs through the whole real assemble(), operands via constants=/@markers',
                              register_spellings='every key of REGISTERS and 0x/0b/0o numerals compared with the ABI table'),
                  stubs=STUBS_ASM,
                  assumptions=['spec/isa.py transcribes the field diagrams of the unprivileged ISA manual v20191213 correctly (validated against the repository test vectors)'] + STUBS_ASM,
                  outside=['operands that are not integers or register spellings (floats, None)'])


def run_C02(tier, seed, t0):
    w = _w(tier)
    known = load_known('C02')
    specs = [('harness.enc', 'enc_task', ('C02', m, w, known)) for m in isa.RVC]
    specs += [('harness.enc', 'reverse_task', (m, known)) for m in isa.RVC]
    specs += [('harness.enc', 'partition_task', ())]
    specs += [('harness.pipe', 'text_task', ('C02', m, w, False, known)) for m in isa.RVC]
    res = pmap(specs)
    return finish('C02', tier, seed, res, t0,
                  bounds=dict(mnemonics=len(isa.RVC), operand_widths=_wtext(w),
                              reverse='all 65536 halfwords: one symbolic 16-bit h per class, assumed legal non-hint non-reserved by spec/isa.py'),
                  stubs=STUBS_ASM,
                  assumptions=['spec/isa.py transcribes ch. 16.8 (RVC listings) correctly; legality = valid, non-hint, non-reserved on RV32'] + STUBS_ASM,
                  outside=['floating-point RVC encodings (not integer, not supported by the assembler)'])


def run_C06(tier, seed, t0):
    w = _w(tier)
    known = load_known('C06')
    specs = [('harness.enc', 'enc_task', ('C06', m, w, known)) for m in isa.T]
    specs += [('harness.pipe', 'text_task', ('C06', m, w, False, known)) for m in isa.T]
    res = pmap(specs)
    return finish('C06', tier, seed, res, t0,
                  bounds=dict(mnemonics=len(isa.T), operand_widths=_wtext(w)),
                  stubs=STUBS_ASM,
                  assumptions=['documented operand sets = DESIGN.md appendix A (docs/instruction_reference.rst + ISA manual); CSR numbers 0x800..0xfff are a don\'t-care band'] + STUBS_ASM,
                  outside=['non-integer operands'])


def run_C07(tier, seed, t0):
    bits = 64 if tier == 'thorough' else 34
    specs = [('harness.kernels', 'hilo_task', (bits,)), ('harness.kernels', 'sign_extend_task', ())]
    specs += [('harness.pipe', 'hilo_pairs_task', (k, bits)) for k in range(7)]
    res = pmap(specs)
    return finish('C07', tier, seed, res, t0,
                  bounds=dict(value='signed %d-bit (covers every 32-bit value in all negative / >2^31 spellings)' % bits),
                  stubs=STUBS_ASM, assumptions=STUBS_ASM,
                  outside=['values beyond the stated width'])

"""C13 (comments, indentation, separators) on the real lex_tokens with symbolic characters (engine E1,
symx.symstr): a source line is a base line of known tokens plus a region of symbolic characters -
the text of a trailing or whole-line comment, the run of blanks in front of the line, the separators
between operands - and the tokens must be those of the base line for every choice of characters.
CrossHair (xh/lexer.py) covers the same freedoms with text up to 4 characters; here the comment is
8 (thorough 12) arbitrary characters, enough to spell any directive name inside a comment."""
import z3

from symx import core, asmshim, symstr
from symx.core import SymInt, SymBool, And, Or, Not
from symx.symstr import SymStr
from . import common
from .common import TaskResult

BASES = {
    'insn': 'addi x1, x2, 3',
    'base_offset': 'lw a0, 4(sp)',
    'label': 'loop:',
    'const': 'LIMIT = 4 * (2 + 1)',
    'data': 'db 1',
    'charlit': "db '#'",
    'pack': 'pack <I 7',
    'pseudo': 'li t0, 0x20000000',
    'include_bytes': 'include_bytes blob.bin 4',
    'align': 'align 4',
    'bytes': 'bytes 1 2 0x3',
    'dw': 'dw 0xdeadbeef',
    'hi': 'lui a0, %hi(target)',
    'amo': 'amoadd.w t0, a0, a1, 1, 0',
}

# region kinds: (description, builder(base, chars) -> list of code points, number of symbolic characters, char domain)
REGIONS = {
    'trailing_comment': 8,
    'tight_comment': 8,
    'whole_line_comment': 8,
    'indent': 6,
    'separators': 2,
    'separators_all': 2,
}
BLANKS = (0x20, 0x09)
KEYWORDS = ('string', 'error', 'include', 'include_bytes', 'align', 'db', 'pack', 'bytes')


def lexsym_task(base_name, region, n):
    tag = 'lexsym:%s:%s:%d' % (base_name, region, n)
    res = TaskResult(tag)
    base = BASES[base_name]
    prof = common.FuncProfile()
    x = core.Explorer(timeout_ms=60000, max_paths=4000)
    asm = asmshim.load_asm_shimmed()
    symstr.install(asm)
    real = asmshim.load_asm_pristine()
    want = [] if region == 'whole_line_comment' else list(real.lex_tokens(base).tokens)
    n_ok = 0

    def build(p):
        if region == 'separators_all':
            # every separator run of the base line becomes one blank plus n symbolic blanks / commas
            import re as _r
            parts = [x for x in _r.split(r'[\s,]+', base) if x]
            out = []
            k = 0
            for j, part in enumerate(parts):
                if j:
                    out.append(0x20)
                    for _ in range(n):
                        c = p.int('c%d' % k, lo=0, hi=0x7f)
                        k += 1
                        p.assume(Or(*[c == a for a in BLANKS + (0x2c,)]))
                        out.append(c)
                out += [ord(ch) for ch in part]
            return out
        if region in ('indent', 'separators'):
            # blanks: each symbolic character is a space or a tab (a comma too between operands)
            chars = []
            for i in range(n):
                c = p.int('c%d' % i, lo=0, hi=0x7f)
                allowed = BLANKS + ((0x2c,) if region == 'separators' else ())
                p.assume(Or(*[c == a for a in allowed]))
                chars.append(c)
        else:
            chars = symstr.sym_chars(p, n)
        b = [ord(ch) for ch in base]
        if region == 'trailing_comment':
            return b + [0x20, 0x23] + chars
        if region == 'tight_comment':
            return b + [0x23] + chars
        if region == 'whole_line_comment':
            return [0x20, 0x23] + chars
        if region.startswith('kw:'):
            # a comment that starts with a directive word, then arbitrary characters
            return b + [0x20, 0x23, 0x20] + [ord(ch) for ch in region[3:]] + [0x20] + chars
        if region == 'indent':
            return chars + b
        # separators: symbolic blanks / commas in place of the first separator run between operands
        k = base.index(' ')
        j = k
        while base[j] in ' ,':
            j += 1
        lead = [ord(ch) for ch in base[:k]]
        rest = [ord(ch) for ch in base[j:]]
        # at least one separator character: the first one is a blank so that mnemonic and operand stay apart
        return lead + [0x20] + chars + rest

    def fn(p):
        cps = build(p)
        p.notes['cps'] = cps
        with prof:
            lt = asm.lex_tokens(asm.Line('<string>', 1, SymStr(cps)))
            return list(lt.tokens)

    def text_of(p, mdl):
        return ''.join(chr(core.concrete(c, mdl)) for c in p.notes['cps'])

    def real_tokens(txt):
        try:
            return ('ok', list(real.lex_tokens(txt).tokens))
        except Exception as e:      # noqa
            return ('exc', type(e).__name__)

    for p, kind, val in x.run(fn):
        if kind == 'limit':
            res.inconc('%s: engine limit: %s' % (tag, val))
            continue
        model = p.witness()
        txt = text_of(p, model)
        r = real_tokens(txt)
        if kind == 'ok':
            symc = ('ok', [t.concrete(model) if isinstance(t, SymStr) else t for t in val])
        else:
            symc = ('exc', type(val).__name__)
        if symc != r:
            res.inconc('%s: witness replay mismatch for %r: symbolic %r, real %r (regex / str model wrong)' % (tag, txt, symc, r))
            continue
        res['validated'] += 1
        if len(res['samples']) < 2:
            res['samples'].append(dict(line=txt, tokens=r[1] if r[0] == 'ok' else r[1]))
        # obligation: for every text on this path the tokens are those of the base line
        bad = None
        if kind != 'ok':
            bad = 'the line was refused (%s)' % type(val).__name__
        else:
            toks = val
            if len(toks) != len(want):
                bad = 'tokens %r' % (symc[1],)
            else:
                diffs = []
                for t, w in zip(toks, want):
                    if isinstance(t, SymStr):
                        if len(t) != len(w):
                            bad = 'tokens %r' % (symc[1],)
                            break
                        diffs += [core._sx(c.e, 24) != ord(ch) for c, ch in zip(t.cps, w) if isinstance(c, SymInt)]
                        if any((not isinstance(c, SymInt)) and c != ord(ch) for c, ch in zip(t.cps, w)):
                            bad = 'tokens %r' % (symc[1],)
                            break
                    elif t != w:
                        bad = 'tokens %r' % (symc[1],)
                        break
                if bad is None and diffs:
                    rr, mdl = p.sat(SymBool(z3.Or(*diffs)))
                    if rr == 'sat':
                        model, txt = mdl, text_of(p, mdl)
                        r = real_tokens(txt)
                        bad = 'tokens %r' % (r[1],)
                    elif rr != 'unsat':
                        res.oblig(None, 'unknown %s' % tag)
                        continue
        if bad is None:
            n_ok += 1
            res.oblig(True)
            continue
        # confirm on the pristine code
        if r == ('ok', want):
            res.inconc('%s: counterexample %r did not reproduce on the real code' % (tag, txt))
            continue
        what = 'line %r lexes to %s, the same line without the %s lexes to %r' % (txt, bad, 'trailing comment' if region.startswith('kw:') else region.replace('_', ' '), want)
        path = common.write_replay('C13', tag, dict(kind='lex', property='C13', line=txt, base=base, region=region, expected=want, what=what))
        res['violations'].append(dict(harness='lexsym', base=base_name, region=region, kind='tokens-differ', inputs=dict(line=txt), what=what, replay=path))
        res.oblig(False)
        if len(res['violations']) >= 3:
            res['notes'].append('%s: stopped after 3 violations' % tag)
            break
    if n_ok == 0 and not res['violations']:
        res['vacuity'].append('%s: no path produced the base tokens' % tag)
    if x.truncated:
        res['notes'].append('%s: path budget exhausted after %d paths' % (tag, x.stats.paths))
    res.absorb_stats(x.stats)
    res['functions'] = prof.names()
    return res


def lexsym_specs(tier):
    specs = []
    for b in BASES:
        for region, n in REGIONS.items():
            if region == 'whole_line_comment' and b != 'insn':
                continue
            if region in ('separators', 'separators_all') and b in ('label', 'const', 'charlit', 'base_offset', 'hi'):
                continue
            k = n + (4 if tier == 'thorough' and 'comment' in region else 0)
            specs.append(('harness.lexsym', 'lexsym_task', (b, region, k)))
    for w in KEYWORDS:
        for b in ('insn', 'label'):
            specs.append(('harness.lexsym', 'lexsym_task', (b, 'kw:' + w, 2)))
    return specs

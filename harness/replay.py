"""Re-run a recorded counterexample on a pristine import of /repo."""
import json
import sys

from symx import asmshim
from spec import isa


def main(path):
    with open(path) as f:
        r = json.load(f)
    real = asmshim.load_asm_pristine()
    kind = r.get('kind')
    print('replaying', kind, 'for', r.get('property'), '-', r.get('violation') or r.get('what'))
    if kind in ('enc', 'enc2'):
        from harness.enc import concrete_outcome, spec_concrete
        insn = isa.T[r['mnemonic']]
        got = concrete_outcome(real, insn, r['operands'])
        legal, dc, word = spec_concrete(insn, r['operands'])
        print(' operands', r['operands'], '-> real', got, '; spec: legal=%s dontcare=%s word=%#x' % (legal, dc, word))
        if kind == 'enc2':
            print(' operands_b', r['operands_b'], '-> real', concrete_outcome(real, insn, r['operands_b']))
        return 0
    if kind in ('text', 'program'):
        try:
            labels = {}
            out = real.assemble(r['source'], constants=dict(r.get('constants') or {}), labels=labels,
                                compress=bool(r.get('compress')))
            print(' real: ok', bytes(out).hex(), labels)
        except Exception as e:
            print(' real: raised', type(e).__name__, e)
        print(' recorded:', {k: v for k, v in r.items() if k not in ('source',)})
        return 0
    if kind == 'history':
        from harness.history import SCENARIOS, real_history, _show
        rh, rf = real_history(SCENARIOS[r['scenario']], r['K0'], bool(r.get('compress')))
        print(' scenario', r['scenario'], 'K0 =', r['K0'], 'compress =', r.get('compress'))
        print(' second call after the first :', _show(rh))
        print(' second call, fresh process  :', _show(rf))
        print(' ->', 'same' if rh == rf else 'DIFFERENT')
        return 0
    if kind == 'lex':
        for label, text in (('line', r['line']), ('base', r['base'])):
            try:
                print(' %s %r -> %r' % (label, text, list(real.lex_tokens(text).tokens)))
            except Exception as e:
                print(' %s %r -> raised %s: %s' % (label, text, type(e).__name__, e))
        return 0
    print(json.dumps(r, indent=1))
    return 0

"""Kernel-level harnesses: relocate_hi/relocate_lo/sign_extend (C07), Align.resolution_size (C09)."""
import z3

from symx import core, asmshim
from symx.core import SymInt, SymBool, And, Or, Not
from . import common
from .common import TaskResult


def hilo_task(bits):
    res = TaskResult('hilo:s%d' % bits)
    asm = asmshim.load_asm_shimmed()
    real = asmshim.load_asm_pristine()
    x = core.Explorer()
    prof = common.FuncProfile()

    def fn(p):
        v = p.int('v', bits)
        with prof:
            hi = asm.relocate_hi(v)
            lo = asm.relocate_lo(v)
            # the consuming encoders must accept them
            w_hi = asm.LUI(5, hi)
            w_aui = asm.AUIPC(5, hi)
            w_lo = asm.ADDI(5, 5, lo)
            w_sw = asm.SW(5, 6, lo)
            w_jalr_ok = None
        p.notes['r'] = (v, hi, lo, w_hi, w_aui, w_lo, w_sw)
        return hi, lo

    npaths = 0
    for p, kind, val in x.run(fn):
        if kind == 'limit':
            res.inconc('hilo: %s' % val)
            continue
        model = p.witness()
        cv = core.concrete(x.inputs['v'], model)
        if kind == 'exc':
            # the consumer refused %hi / %lo of some value: violation
            try:
                h, l = real.relocate_hi(cv), real.relocate_lo(cv)
                real.LUI(5, h), real.AUIPC(5, h), real.ADDI(5, 5, l), real.SW(5, 6, l)
                res.inconc('hilo: refusing path did not reproduce for v=%d' % cv)
            except Exception as e:
                path = common.write_replay('C07', 'hilo_refused', dict(kind='hilo', v=cv, error=repr(e)))
                res['violations'].append(dict(harness='hilo', kind='consumer-refuses', v=cv, error=repr(e), replay=path))
                res.oblig(False)
            continue
        npaths += 1
        v, hi, lo, w_hi, w_aui, w_lo, w_sw = p.notes['r']
        # witness replay
        rh, rl = real.relocate_hi(cv), real.relocate_lo(cv)
        if (rh, rl) != (core.concrete(hi, model), core.concrete(lo, model)) or \
                real.LUI(5, rh) != core.concrete(w_hi, model) or real.ADDI(5, 5, rl) != core.concrete(w_lo, model):
            res.inconc('hilo: witness replay mismatch v=%d' % cv)
            continue
        res['validated'] += 1
        if len(res['samples']) < 3:
            res['samples'].append(dict(v=cv, hi=rh, lo=rl))
        obligs = [
            ('hi fits 20 bits signed', And(hi >= -(1 << 19), hi < (1 << 19))),
            ('lo fits 12 bits signed', And(lo >= -2048, lo <= 2047)),
            ('(hi<<12)+lo == v mod 2^32', ((hi * 4096 + lo - v) % (1 << 32)) == 0),
            # decoded pair: U-immediate field of the lui word and I-immediate of the addi word
            ('lui/addi words rebuild v', _pair_rebuilds(w_hi, w_lo, v, 'I')),
            ('auipc/sw words rebuild v', _pair_rebuilds(w_aui, w_sw, v, 'S')),
        ]
        for name, ob in obligs:
            r, mdl = p.sat(Not(ob))
            if r == 'sat':
                bad = core.concrete(x.inputs['v'], mdl)
                rh, rl = real.relocate_hi(bad), real.relocate_lo(bad)
                ok_conc = _concrete_check(real, bad)
                if not ok_conc:
                    path = common.write_replay('C07', 'hilo_' + name[:12], dict(kind='hilo', v=bad, hi=rh, lo=rl, obligation=name))
                    res['violations'].append(dict(harness='hilo', kind=name, v=bad, hi=rh, lo=rl, replay=path))
                    res.oblig(False)
                else:
                    res.inconc('hilo: counterexample v=%d for %s did not reproduce' % (bad, name))
            else:
                res.oblig(True if r == 'unsat' else None, 'unknown hilo ' + name)
                if r == 'unsat' and bits >= 64:
                    from symx import second
                    r2 = second.recheck(p.pc_assertions() + [Not(ob).b if isinstance(Not(ob), SymBool) else z3.BoolVal(not ob)])
                    ss = res.setdefault('second_solver', dict(queries=0, agree=0, disagree=[]))
                    ss['queries'] += 1
                    if r2 == 'unsat':
                        ss['agree'] += 1
                    else:
                        ss['disagree'].append('hilo %s: cvc5 %s' % (name, r2))
                        res.inconc('second solver disagrees on hilo %s: %s' % (name, r2))
    if npaths == 0:
        res['vacuity'].append('hilo: no accepting path')
    res.absorb_stats(x.stats)
    res['functions'] = prof.names()
    return res


def _field(word, hi, lo):
    """bits hi..lo of the integer ``word`` as z3 bit-vector"""
    e = word.bv(33) if isinstance(word, SymInt) else z3.BitVecVal(word, 33)
    return z3.Extract(hi, lo, e)


def _pair_rebuilds(w_u, w_i, v, fmt):
    u = _field(w_u, 31, 12)
    if fmt == 'I':
        i = _field(w_i, 31, 20)
    else:
        i = z3.Concat(_field(w_i, 31, 25), _field(w_i, 11, 7))
    total = z3.Concat(u, z3.BitVecVal(0, 12)) + z3.SignExt(20, i)
    vv = v.bv(32) if isinstance(v, SymInt) else z3.BitVecVal(v, 32)
    return SymBool(total == vv)


def _concrete_check(real, v):
    hi, lo = real.relocate_hi(v), real.relocate_lo(v)
    if not (-(1 << 19) <= hi < (1 << 19) and -2048 <= lo <= 2047):
        return False
    if (hi * 4096 + lo - v) % (1 << 32) != 0:
        return False
    wu, wi, ws = real.LUI(5, hi), real.ADDI(5, 5, lo), real.SW(5, 6, lo)
    imm_i = (wi >> 20) - (4096 if wi >> 31 else 0)
    imm_s = (((ws >> 25) << 5) | ((ws >> 7) & 31))
    imm_s -= 4096 if imm_s & 0x800 else 0
    if (((wu >> 12) << 12) + imm_i - v) % (1 << 32) != 0:
        return False
    wa = real.AUIPC(5, hi)
    if (((wa >> 12) << 12) + imm_s - v) % (1 << 32) != 0:
        return False
    return True


def sign_extend_task():
    """sign_extend(value, bits) for the repository's uses: bits in {12, 20} and the test widths"""
    res = TaskResult('sign_extend')
    asm = asmshim.load_asm_shimmed()
    real = asmshim.load_asm_pristine()
    x = core.Explorer()
    prof = common.FuncProfile()
    for bits in (3, 4, 8, 12, 20, 32):
        def fn(p, bits=bits):
            v = p.int('u%d' % bits, lo=0, hi=(1 << bits) - 1)
            with prof:
                return asm.sign_extend(v, bits)
        for p, kind, val in x.run(fn):
            if kind != 'ok':
                res.inconc('sign_extend(%d): %s %r' % (bits, kind, val))
                continue
            v = x.inputs['u%d' % bits]
            model = p.witness()
            cv = core.concrete(v, model)
            if real.sign_extend(cv, bits) != core.concrete(val, model):
                res.inconc('sign_extend witness mismatch')
                continue
            res['validated'] += 1
            want = core.from_bv_signed(v.bv(bits))
            r, mdl = p.sat(Not(val == want))
            if r == 'sat':
                bad = core.concrete(v, mdl)
                got = real.sign_extend(bad, bits)
                exp = bad - (1 << bits) if bad >> (bits - 1) else bad
                if got != exp:
                    path = common.write_replay('C07', 'sign_extend_%d' % bits, dict(kind='sign_extend', v=bad, bits=bits, got=got, want=exp))
                    res['violations'].append(dict(harness='sign_extend', bits=bits, v=bad, got=got, want=exp, replay=path))
                    res.oblig(False)
                else:
                    res.inconc('sign_extend counterexample did not reproduce')
            else:
                res.oblig(True if r == 'unsat' else None, 'unknown sign_extend')
    res.absorb_stats(x.stats)
    res['functions'] = prof.names()
    return res


def align_task(ns, pos_bits):
    """the real Align.resolution_size(pos): fewest zero bytes 0..N-1 making pos+pad a multiple of N"""
    res = TaskResult('align-kernel:%s' % (ns[:3],))
    asm = asmshim.load_asm_shimmed()
    real = asmshim.load_asm_pristine()
    prof = common.FuncProfile()
    x = core.Explorer(timeout_ms=120000)
    for N in ns:
        def fn(p, N=N):
            pos = p.int('pos', lo=0, hi=(1 << pos_bits))
            with prof:
                return asm.Align(None, N).resolution_size(pos)
        n = 0
        for p, kind, val in x.run(fn):
            if kind != 'ok':
                res.inconc('align %d: %s %r' % (N, kind, val))
                continue
            n += 1
            pos = x.inputs['pos']
            model = p.witness()
            cp = core.concrete(pos, model)
            if real.Align(None, N).resolution_size(cp) != core.concrete(val, model):
                res.inconc('align %d: witness mismatch at pos %d' % (N, cp))
                continue
            res['validated'] += 1
            ob = And(val >= 0, val < N, ((pos + val) % N) == 0)
            r, mdl = p.sat(Not(ob))
            if r == 'sat':
                bp = core.concrete(pos, mdl)
                got = real.Align(None, N).resolution_size(bp)
                if not (0 <= got < N and (bp + got) % N == 0):
                    path = common.write_replay('C09', 'align_%d' % N, dict(kind='align', N=N, pos=bp, pad=got))
                    res['violations'].append(dict(harness='align-kernel', kind='pad', N=N, pos=bp, pad=got, replay=path))
                    res.oblig(False)
                else:
                    res.inconc('align %d: counterexample did not reproduce' % N)
            else:
                res.oblig(True if r == 'unsat' else None, 'unknown align %d' % N)
        if n == 0:
            res['vacuity'].append('align %d: no path' % N)
    if ns:
        res['samples'].append(dict(alignments=ns[:6], pos_bits=pos_bits))
    res.absorb_stats(x.stats)
    res['functions'] = prof.names()
    return res


def align_symN_task(nmax, pos_bits):
    """symbolic alignment 1..nmax-1 and symbolic position"""
    res = TaskResult('align-kernel-symN')
    asm = asmshim.load_asm_shimmed()
    real = asmshim.load_asm_pristine()
    x = core.Explorer(timeout_ms=600000)
    x.allow_symmod = True

    def fn(p):
        pos = p.int('pos', lo=0, hi=(1 << pos_bits))
        N = p.int('N', lo=1, hi=nmax - 1)
        return asm.Align(None, N).resolution_size(pos)

    for p, kind, val in x.run(fn):
        if kind != 'ok':
            res.inconc('align symN: %s %r' % (kind, val))
            continue
        pos, N = x.inputs['pos'], x.inputs['N']
        model = p.witness()
        cp, cn = core.concrete(pos, model), core.concrete(N, model)
        if real.Align(None, cn).resolution_size(cp) != core.concrete(val, model):
            res.inconc('align symN: witness mismatch')
            continue
        res['validated'] += 1
        # (pos+pad) % N == 0 with symbolic N: pos + pad == q * N for the quotient q
        q = z3.BitVec('q', pos_bits + 2)
        w = pos_bits + 10
        tot = (pos + val)
        ob = z3.And((val >= 0).b if isinstance(val >= 0, SymBool) else z3.BoolVal(bool(val >= 0)),
                    (val < N).b if isinstance(val < N, SymBool) else z3.BoolVal(bool(val < N)),
                    z3.URem(core._sx(tot.e if isinstance(tot, SymInt) else z3.BitVecVal(tot, w), w), core._sx(N.e, w)) == 0)
        r, mdl = p.sat(z3.Not(ob))
        if r == 'sat':
            bp, bn = core.concrete(pos, mdl), core.concrete(N, mdl)
            got = real.Align(None, bn).resolution_size(bp)
            if not (0 <= got < bn and (bp + got) % bn == 0):
                path = common.write_replay('C09', 'align_symN', dict(kind='align', N=bn, pos=bp, pad=got))
                res['violations'].append(dict(harness='align-kernel', kind='pad', N=bn, pos=bp, pad=got, replay=path))
                res.oblig(False)
            else:
                res.inconc('align symN counterexample did not reproduce')
        else:
            res.oblig(True if r == 'unsat' else None, 'unknown align symN')
    res.absorb_stats(x.stats)
    return res

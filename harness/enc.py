"""Encoder-level harness: asm.INSTRUCTIONS[m](*operands) with symbolic operands.
Serves C01 / C02 (word == specification diagram, one-to-one) and C06 (operand sets)."""
import json
import z3

from symx import core, asmshim
from symx.core import SymInt, SymBool, And, Or, Not
from spec import isa
from . import common
from .common import TaskResult

REG_OPS = ('rd', 'rs1', 'rs2', 'uimm', 'shamt')


def declare(p, insn, widths):
    ops = {}
    for o in insn.operands:
        if o in REG_OPS:
            ops[o] = p.int(o, widths['reg'])
        elif o in ('aq', 'rl', 'succ', 'pred'):
            ops[o] = p.int(o, widths['small'])
        else:
            ops[o] = p.int(o, widths['imm'])
    return ops


def call_encoder(asm, insn, ops):
    f = asm.INSTRUCTIONS[insn.name]
    if insn.cls in ('A', 'AL'):
        pos = [ops[o] for o in insn.operands if o not in ('aq', 'rl')]
        return f(*pos, aq=ops['aq'], rl=ops['rl'])
    return f(*[ops[o] for o in insn.operands])


def concrete_outcome(asm_real, insn, cops):
    try:
        return ('ok', call_encoder(asm_real, insn, cops))
    except Exception as e:
        return ('exc', type(e).__name__)


def spec_concrete(insn, cops):
    legal = bool(insn.legal(**cops))
    dc = bool(insn.dontcare(**cops)) if insn.dontcare else False
    word = z3.simplify(insn.word(**cops)).as_long()
    return legal, dc, word


def as_symint(v):
    return v


def eq_word(v, word_bv):
    """SymBool: integer v equals the unsigned value of word_bv"""
    return v == core.from_bv_unsigned(word_bv)


def region_pred(expr, ops):
    env = dict(And=And, Or=Or, Not=Not, rng=isa.rng, mult=isa.mult)
    env.update(ops)
    return eval(expr, {'__builtins__': {}}, env)


def enc_task(prop, m, widths, known):
    """prop in C01 C02 C06. Returns TaskResult."""
    res = TaskResult('enc:%s' % m)
    insn = isa.T[m]
    asm = asmshim.load_asm_shimmed()
    asm_real = asmshim.load_asm_pristine()
    x = core.Explorer(timeout_ms=60000)
    accepting = []   # (pc, result expr) for the two-copy query
    n_acc = n_ref = 0
    prof = common.FuncProfile()

    def fn(p):
        ops = declare(p, insn, widths)
        p.notes['ops'] = ops
        with prof:
            return call_encoder(asm, insn, ops)

    def report(kind, model, what, p):
        cops = {k: core.concrete(v, model) for k, v in p.notes['ops'].items()}
        got = concrete_outcome(asm_real, insn, cops)
        legal, dc, word = spec_concrete(insn, cops)
        # does the counterexample reproduce on the pristine import?
        if kind == 'accepts-illegal':
            repro = got[0] == 'ok' and not legal and not dc
        elif kind == 'refuses-legal':
            repro = got[0] == 'exc' and legal
        elif kind == 'wrong-word':
            repro = got[0] == 'ok' and (legal or dc) and got[1] != word
        elif kind == 'not-injective':
            repro = True
        else:
            repro = False
        if not repro:
            res.inconc('counterexample for %s %s %r did not reproduce on the real code (got %r, legal=%r, spec=%#x)'
                       % (m, kind, cops, got, legal, word))
            return
        site = dict(harness='enc', mnemonic=m, kind=kind)
        payload = dict(kind='enc', property=prop, mnemonic=m, operands=cops, violation=kind, what=what,
                       real_outcome=list(got), spec_legal=legal, spec_word=word)
        path = common.write_replay(prop, 'enc_%s_%s' % (m, kind), payload)
        res['violations'].append(dict(site, operands=cops, what=what, real=list(got), replay=path))

    for p, kind, val in x.run(fn):
        ops = p.notes.get('ops')
        if kind == 'limit':
            res.inconc('%s: engine limit: %s' % (m, val))
            continue
        legal = insn.legal(**ops)
        dc = insn.dontcare(**ops) if insn.dontcare else False
        model = p.witness()
        cops = {k: core.concrete(v, model) for k, v in ops.items()}
        # --- per-path witness replay on the pristine import -----------------
        got = concrete_outcome(asm_real, insn, cops)
        if kind == 'ok':
            want = ('ok', core.concrete(val, model))
        else:
            want = ('exc', type(val).__name__)
        if got != want:
            res.inconc('%s: witness replay mismatch for %r: symbolic %r, real %r' % (m, cops, want, got))
            continue
        res['validated'] += 1
        if len(res['samples']) < 2:
            res['samples'].append(dict(mnemonic=m, witness=cops, outcome=[want[0], want[1] if kind != 'ok' else hex(want[1])]))

        if kind == 'ok':
            n_acc += 1
            if prop == 'C06':
                # accepted => inside the documented set (or the don't-care band)
                kn = [k for k in known if k.get('match', {}).get('mnemonic') == m
                      and k['match'].get('kind') == 'accepts-illegal']
                excl = Or(legal, dc)
                for k in kn:
                    excl = Or(excl, region_pred(k['region'], ops))
                r, mdl = p.sat(Not(excl))
                if r == 'sat':
                    report('accepts-illegal', mdl, 'accepted although outside the documented operand set', p)
                    res.oblig(False)
                else:
                    res.oblig(True if r == 'unsat' else None, 'unknown: %s accept-set' % m)
                for k in kn:
                    r2, mdl2 = p.sat(And(Not(Or(legal, dc)), region_pred(k['region'], ops)))
                    if r2 == 'sat':
                        res['known'].append(dict(id=k.get('id'), what=k.get('what')))
            else:
                word = insn.word(**ops)
                inside = Or(legal, dc)
                isint = isinstance(val, (int, SymInt))
                if not isint:
                    res.oblig(False)
                    report('wrong-word', model, 'encoder returned a non-integer', p)
                    continue
                # an accepted tuple must be one the specification can name at all ...
                r, mdl = p.sat(Not(inside))
                if r == 'sat':
                    report('accepts-illegal', mdl, 'accepted operands that no encoding of this instruction can carry', p)
                    res.oblig(False)
                else:
                    res.oblig(True if r == 'unsat' else None, 'unknown: %s accept' % m)
                # ... and the word must be the specification's word for exactly that tuple
                r, mdl = p.sat(And(inside, Not(eq_word(val, word))))
                if r == 'sat':
                    report('wrong-word', mdl, 'word differs from the specification diagram', p)
                    res.oblig(False)
                else:
                    res.oblig(True if r == 'unsat' else None, 'unknown: %s word' % m)
                    if r == 'unsat' and widths.get('second_solver') and isinstance(val, SymInt):
                        from symx import second
                        neg = And(inside, Not(eq_word(val, word)))
                        r2 = second.recheck(p.pc_assertions() + [neg.b])
                        ss = res.setdefault('second_solver', dict(queries=0, agree=0, disagree=[]))
                        ss['queries'] += 1
                        if r2 == 'unsat':
                            ss['agree'] += 1
                        else:
                            ss['disagree'].append('%s: z3 unsat, cvc5 %s' % (m, r2))
                            res.inconc('second solver disagrees on %s word obligation: cvc5 says %s' % (m, r2))
                accepting.append((z3.And(*p.pc_assertions()) if p.pc_assertions() else z3.BoolVal(True),
                                  val, legal, dc))
        else:
            n_ref += 1
            if prop == 'C06':
                r, mdl = p.sat(legal)
                if r == 'sat':
                    report('refuses-legal', mdl, 'refused although inside the documented operand set', p)
                    res.oblig(False)
                else:
                    res.oblig(True if r == 'unsat' else None, 'unknown: %s refuse-set' % m)
                if not isinstance(val, ValueError):
                    res['notes'].append('%s refuses with %s' % (m, type(val).__name__))

    # --- vacuity: every mnemonic must have an accepting path, and (if it has operands)
    #     a refusing path
    if n_acc == 0:
        res['vacuity'].append('%s: no accepting path' % m)
    if insn.operands and n_ref == 0:
        res['vacuity'].append('%s: no refusing path' % m)

    # --- one-to-one: two-copy query over the real code's symbolic results ------
    if prop in ('C01', 'C02') and accepting and insn.operands:
        names = insn.operands
        va = {n: x.inputs[n] for n in names}
        sub = [(va[n].e, z3.BitVec(n + '__b', va[n].e.size())) for n in names]
        vb = {n: SymInt(sub[i][1], va[n].lo, va[n].hi) for i, n in enumerate(names)}
        W = insn.bits + 2

        def copy_formula(subst):
            alts = []
            for pc, val, legal, dc in accepting:
                inside = Or(legal, dc)
                inside = inside.b if isinstance(inside, SymBool) else z3.BoolVal(bool(inside))
                ve = val.bv(W) if isinstance(val, SymInt) else z3.BitVecVal(val, W)
                f = z3.And(pc, inside, z3.BitVec('W__x', W) == ve)
                alts.append(f)
            f = z3.Or(*alts)
            if subst:
                f = z3.substitute(f, *sub, (z3.BitVec('W__x', W), z3.BitVec('W__y', W)))
            return f

        def canon(ops):
            out = []
            for n in names:
                v = ops[n]
                if insn.canon and n in insn.canon:
                    v = insn.canon[n](v)
                out.append(v)
            return out

        ca, cb = canon(va), canon(vb)
        differ = Or(*[a != b for a, b in zip(ca, cb)])
        s = z3.Solver()
        s.set('timeout', 120000)
        s.add(copy_formula(False), copy_formula(True), z3.BitVec('W__x', W) == z3.BitVec('W__y', W))
        s.add(differ.b if isinstance(differ, SymBool) else z3.BoolVal(bool(differ)))
        import time as _t
        t0 = _t.time()
        r = s.check()
        res['queries'] += 1
        res['solver_time'] += _t.time() - t0
        if r == z3.sat:
            mdl = s.model()
            a = {n: core.concrete(va[n], mdl) for n in names}
            b = {n: core.concrete(vb[n], mdl) for n in names}
            ga, gb = concrete_outcome(asm_real, insn, a), concrete_outcome(asm_real, insn, b)
            if ga[0] == 'ok' and ga == gb:
                payload = dict(kind='enc2', property=prop, mnemonic=m, operands=a, operands_b=b,
                               violation='not-injective', real_outcome=list(ga))
                path = common.write_replay(prop, 'enc_%s_injective' % m, payload)
                res['violations'].append(dict(harness='enc', mnemonic=m, kind='not-injective',
                                              operands=a, operands_b=b, word=ga[1], replay=path))
                res.oblig(False)
            else:
                res.inconc('%s: injectivity counterexample %r / %r did not reproduce (%r, %r)' % (m, a, b, ga, gb))
        else:
            res.oblig(True if r == z3.unsat else None, 'unknown: %s injectivity' % m)

    res.absorb_stats(x.stats)
    res['functions'] = prof.names()
    return res


def reverse_task(m, known):
    """C02 reverse direction: every legal non-hint halfword of class m is produced by the
    real encoder from the operands it names."""
    res = TaskResult('rvc-reverse:%s' % m)
    insn = isa.T[m]
    asm = asmshim.load_asm_shimmed()
    asm_real = asmshim.load_asm_pristine()
    x = core.Explorer(timeout_ms=60000)
    prof = common.FuncProfile()
    reached = [0]

    def fn(p):
        h = z3.BitVec('h', 16)
        x.inputs['h'] = core.from_bv_unsigned(h)
        match, ops = isa.decode_fields(m, h)
        p.assume_z3(match)
        legal = insn.legal(**ops)
        p.assume(legal)
        p.notes['ops'] = ops
        with prof:
            return call_encoder(asm, insn, ops)

    for p, kind, val in x.run(fn):
        if kind == 'limit':
            res.inconc('%s reverse: engine limit %s' % (m, val))
            continue
        reached[0] += 1
        model = p.witness()
        hv = core.concrete(x.inputs['h'], model)
        cops = {k: core.concrete(v, model) for k, v in p.notes['ops'].items()}
        got = concrete_outcome(asm_real, insn, cops)
        want = ('ok', core.concrete(val, model)) if kind == 'ok' else ('exc', type(val).__name__)
        if got != want:
            res.inconc('%s reverse: witness replay mismatch %r: %r vs %r' % (m, cops, want, got))
            continue
        res['validated'] += 1
        if len(res['samples']) < 1:
            res['samples'].append(dict(halfword=hex(hv), mnemonic=m, operands=cops, outcome=[want[0], str(want[1])]))
        if kind == 'exc':
            payload = dict(kind='enc', property='C02', mnemonic=m, operands=cops, violation='refuses-legal',
                           halfword=hv, real_outcome=list(got))
            path = common.write_replay('C02', 'rev_%s_refused' % m, payload)
            res['violations'].append(dict(harness='rvc-reverse', mnemonic=m, kind='refuses-legal',
                                          halfword=hex(hv), operands=cops, replay=path))
            res.oblig(False)
            continue
        r, mdl = p.sat(Not(val == x.inputs['h']))
        if r == 'sat':
            hv = core.concrete(x.inputs['h'], mdl)
            cops = {k: core.concrete(v, mdl) for k, v in p.notes['ops'].items()}
            got = concrete_outcome(asm_real, insn, cops)
            if got[0] == 'ok' and got[1] != hv:
                payload = dict(kind='enc', property='C02', mnemonic=m, operands=cops, violation='wrong-word',
                               halfword=hv, real_outcome=list(got), spec_word=hv)
                path = common.write_replay('C02', 'rev_%s_word' % m, payload)
                res['violations'].append(dict(harness='rvc-reverse', mnemonic=m, kind='wrong-word',
                                              halfword=hex(hv), operands=cops, got=hex(got[1]), replay=path))
                res.oblig(False)
            else:
                res.inconc('%s reverse counterexample did not reproduce' % m)
        else:
            res.oblig(True if r == 'unsat' else None, 'unknown: %s reverse' % m)
    if reached[0] == 0:
        res['vacuity'].append('%s reverse: no halfword reaches the encoder' % m)
    res.absorb_stats(x.stats)
    res['functions'] = prof.names()
    return res


def partition_task():
    """oracle sanity for C02: the 27 classes' legal halfword sets are pairwise disjoint,
    and how many halfwords each has (model counting by the solver is not needed: the
    count is reported from the diagram, 2^(free bits) minus exclusions, only as info)."""
    res = TaskResult('rvc-partition')
    h = z3.BitVec('h', 16)
    x = core.Explorer()
    preds = {}

    def fn(p):
        for m in isa.RVC:
            match, ops = isa.decode_fields(m, h)
            legal = isa.T[m].legal(**ops)
            lb = legal.b if isinstance(legal, SymBool) else z3.BoolVal(bool(legal))
            preds[m] = z3.And(match, lb)
        return None

    for p, kind, val in x.run(fn):
        names = list(preds)
        s = z3.Solver()
        for i in range(len(names)):
            r0 = s.check(preds[names[i]])
            res['queries'] += 1
            if r0 != z3.sat:
                res['vacuity'].append('class %s has no legal halfword' % names[i])
            for j in range(i + 1, len(names)):
                r = s.check(preds[names[i]], preds[names[j]])
                res['queries'] += 1
                if r == z3.unsat:
                    res.oblig(True)
                else:
                    res.oblig(None, 'oracle classes %s and %s overlap (oracle defect)' % (names[i], names[j]))
    res['paths'] = 1
    res['decisions'] = 1
    return res

"""C10 `string`: 'emits the UTF-8 encoding of its text after backslash-escape processing'.

The text after ``string `` is a sequence of symbolic code points (shapes below fix some of them,
e.g. a leading backslash, so that the long escapes stay within reach).  The real lexer, parser and
string pass run on it (symx.symstr supplies the codec and regex models); an independent
character-level reference (escape grammar of the Python language reference + RFC 3629) is
evaluated on the same path and the solver is asked for a text on which the two differ.
Witnesses and counterexamples are replayed on the pristine code with CPython's real codecs.

The CrossHair condition (string_plain, no backslashes) is kept as a second, bug-hunting-only
engine."""
import z3

from symx import core, asmshim, symstr
from symx.core import SymInt, SymBool, And, Or, Not
from symx.symstr import SymStr
from symx.symbytes import SymBytes
from . import common, xhair
from .common import TaskResult

S = None     # a symbolic character (any code point a line of a UTF-8 file can hold)
A = 'ascii'  # a symbolic ASCII character (the digit positions of the long escapes)

#: name -> (line prefix, slots after the prefix)
SHAPES_QUICK = {
    'any1': ('string ', [S]),
    'any2': ('string ', [S, S]),
    'any3': ('string ', [S, S, S]),
    'bs3': ('string ', ['\\', S, S, S]),
    'x2_1': ('string ', ['\\', 'x', S, S, S]),
    'u4': ('string ', ['\\', 'u', A, A, A, A]),
    'U8': ('string ', ['\\', 'U', A, A, A, A, A, A, A, A]),
    'mid_x': ('string ', [S, '\\', 'x', S, S]),
    'oct_then': ('string ', ['\\', A, A, A, S]),
    'indent_any2': (' \tstring ', [S, S]),
    'tail_bs': ('string ', [S, S, '\\']),
    'two_escapes': ('string ', ['\\', S, '\\', S]),
    'quote_hash': ('string ', ["'", S, "'", ' ', '#', S]),
    'wide_bs_wide': ('string ', [S, '\\', '\\', S]),
}
SHAPES_THOROUGH = dict(SHAPES_QUICK, **{
    'any4': ('string ', [S, S, S, S]),
    'bs4': ('string ', ['\\', S, S, S, S]),
    'u4_any': ('string ', ['\\', 'u', S, S, S, S]),
    'u4_1': ('string ', ['\\', 'u', A, A, A, A, S]),
    'any_u4': ('string ', [S, '\\', 'u', A, A, A, A]),
    'U8_1': ('string ', ['\\', 'U', A, A, A, A, A, A, A, A, S]),
    'x_x': ('string ', ['\\', 'x', A, A, '\\', 'x', A, A]),
    'bs_runs': ('string ', ['\\', '\\', '\\', S, '\\', S]),
})


# ---------------------------------------------------------------------------
# reference: escape grammar (Python language reference, 'String and Bytes literals' escape
# table, as implemented for text by the unicode_escape codec) and UTF-8 (RFC 3629)
# ---------------------------------------------------------------------------
ONE_CHAR = {ord('\\'): 0x5c, ord("'"): 0x27, ord('"'): 0x22, ord('a'): 0x07, ord('b'): 0x08, ord('f'): 0x0c,
            ord('n'): 0x0a, ord('r'): 0x0d, ord('t'): 0x09, ord('v'): 0x0b}
HEX_LEN = {ord('x'): 2, ord('u'): 4, ord('U'): 8}


def _digit(c, base):
    """numeric value of character c in the base, or None (a single decision, then arithmetic)"""
    dec = And(c >= ord('0'), c <= (ord('7') if base == 8 else ord('9')))
    low = And(c >= ord('a'), c <= ord('f')) if base == 16 else False
    up = And(c >= ord('A'), c <= ord('F')) if base == 16 else False
    if not Or(dec, low, up):
        return None
    return core.ite(dec, c - ord('0'), core.ite(low, c - ord('a') + 10, c - ord('A') + 10))


def _one_char(e):
    if not Or(*[e == k for k in ONE_CHAR]):
        return None
    items = list(ONE_CHAR.items())
    r = items[-1][1]
    for k, v in items[:-1]:
        r = core.ite(e == k, v, r)
    return r


def ref_unescape(text):
    """list of code points the escaped text denotes, or None when an escape is malformed"""
    out = []
    rest = list(text)
    while rest:
        c = rest.pop(0)
        if not (c == 0x5c):
            out.append(c)
            continue
        if not rest:
            return None                         # a backslash with nothing behind it
        e = rest.pop(0)
        hit = _one_char(e)
        if hit is not None:
            out.append(hit)
            continue
        d = _digit(e, 8)
        if d is not None:                       # \o \oo \ooo
            val = d
            for _ in range(2):
                if not rest:
                    break
                d = _digit(rest[0], 8)
                if d is None:
                    break
                val = val * 8 + d
                rest.pop(0)
            out.append(val)
            continue
        width = None
        for k, v in HEX_LEN.items():
            if e == k:
                width = v
                break
        if width is not None:                   # \xhh \uhhhh \Uhhhhhhhh: exactly that many hex digits
            if len(rest) < width:
                return None
            val = 0
            for _ in range(width):
                d = _digit(rest.pop(0), 16)
                if d is None:
                    return None
                val = val * 16 + d
            if val > 0x10ffff:
                return None
            out.append(val)
            continue
        # any other character: not an escape, the backslash is kept (\N{...} is excluded by the harness)
        out.append(0x5c)
        out.append(e)
    return out


def ref_utf8(cps):
    """RFC 3629 byte sequence, or None for a surrogate code point"""
    out = []
    for cp in cps:
        if cp <= 0x7f:
            out.append(cp)
        elif cp <= 0x7ff:
            out += [0xc0 + cp // 64, 0x80 + cp % 64]
        elif cp <= 0xffff:
            if cp >= 0xd800 and cp <= 0xdfff:
                return None
            out += [0xe0 + cp // 4096, 0x80 + (cp // 64) % 64, 0x80 + cp % 64]
        else:
            out += [0xf0 + cp // 262144, 0x80 + (cp // 4096) % 64, 0x80 + (cp // 64) % 64, 0x80 + cp % 64]
    return out


def reference(text):
    u = ref_unescape(text)
    return None if u is None else ref_utf8(u)


def _z(v, w=24):
    if isinstance(v, SymInt):
        return core._sx(v.e, w) if v.e.size() < w else z3.Extract(w - 1, 0, v.e)
    return z3.BitVecVal(v, w)


# ---------------------------------------------------------------------------
def symstring_task(shape, prefix, slots):
    res = TaskResult('string:%s' % shape)
    prof = common.FuncProfile()
    x = core.Explorer(timeout_ms=120000, max_paths=60000)
    asm = asmshim.load_asm_shimmed()
    symstr.install(asm)
    real = asmshim.load_asm_pristine()
    nsym = sum(1 for s in slots if s is S or s == A)
    ascii_only = [k for k, s in enumerate(x for x in slots if x is S or x == A) if s == A]
    n_ok = n_ref = n_mal = 0

    def text_of(p):
        chars = symstr.sym_chars(p, nsym, ascii_only=ascii_only)
        it = iter(chars)
        return [next(it) if (s is S or s == A) else ord(s) for s in slots]

    def fn(p):
        text = text_of(p)
        # \N{name} needs the Unicode name database: outside the claim
        for a, b in zip(text, text[1:]):
            p.assume(Not(And(a == 0x5c, b == ord('N'))))
        p.notes['text'] = text
        p.notes['want'] = reference(text)          # forks: the reference partitions the texts first
        with prof:
            line = asm.Line('<string>', 1, SymStr([ord(ch) for ch in prefix] + text))
            item = asm.parse_item(asm.lex_tokens(line))
            size = item.size()
            blob = asm.resolve_strings([item])[0]
            return size, blob.data

    def concrete_text(p, mdl):
        return ''.join(chr(core.concrete(c, mdl)) for c in p.notes['text'])

    def real_outcome(txt):
        labels = {}
        try:
            out = real.assemble(prefix + txt + '\nL1:\n', labels=labels)
            return ('ok', bytes(out), labels.get('L1'))
        except Exception as e:        # noqa: the real code's refusal
            return ('exc', type(e).__name__, str(e).splitlines()[-1][:200])

    def concrete_ok(txt):
        want = reference([ord(ch) for ch in txt])
        r = real_outcome(txt)
        if want is None:
            return True, r, want          # malformed escape: nothing is documented, nothing demanded
        return r[0] == 'ok' and r[1] == bytes(want) and r[2] == len(want), r, want

    def violation(kind, p, mdl, what):
        txt = concrete_text(p, mdl)
        ok, r, want = concrete_ok(txt)
        if ok:
            res.inconc('string %s: counterexample %r for %s did not reproduce on the real code' % (shape, txt, kind))
            return
        detail = '%s; text %r: documented %s, real code %s' % (what, txt, 'refusal (malformed escape)' if want is None else bytes(want).hex(),
                                                                 r[1].hex() + ' L1=%r' % (r[2],) if r[0] == 'ok' else r[1:])
        path = common.write_replay('C10', 'string_%s_%s' % (shape, kind), dict(
            kind='program', property='C10', source=prefix + txt + '\nL1:\n', constants={}, what=detail))
        res['violations'].append(dict(harness='string', shape=shape, kind=kind, inputs=dict(text=txt), what=detail, replay=path))
        res.oblig(False)

    for p, kind, val in x.run(fn):
        if kind == 'limit':
            res.inconc('string %s: engine limit: %s' % (shape, val))
            continue
        model = p.witness()
        txt = concrete_text(p, model)
        r = real_outcome(txt)
        if kind == 'ok':
            size, data = val
            symc = ('ok', symbytes_concrete(data, model), core.concrete(size, model))
        else:
            symc = ('exc', type(val).__name__)
        if symc[0] != r[0] or (symc[0] == 'ok' and (symc[1] != r[1] or symc[2] != r[2])):
            res.inconc('string %s: witness replay mismatch for %r: symbolic %r, real %r (codec / regex model wrong)' % (shape, txt, symc, r))
            continue
        res['validated'] += 1
        want = p.notes.get('want', 'unset')
        if want == 'unset':
            res.inconc('string %s: reference not evaluated' % shape)
            continue
        if len(res['samples']) < 2:
            res['samples'].append(dict(source=prefix + txt, outcome=[r[0], r[1].hex() if r[0] == 'ok' else r[1]]))
        if want is None:
            n_mal += 1                      # malformed escape: outside the claim
            continue
        if kind == 'exc':
            n_ref += 1
            violation('refuses-wellformed', p, model, 'a well-formed string was refused (%s)' % type(val).__name__)
            continue
        n_ok += 1
        size, data = val
        got = symstr._byte_values(data)
        if len(got) != len(want) or not isinstance(size, int) or size != len(got):
            violation('length', p, model, 'emitted %d bytes, size() says %r, documented %d' % (len(got), size, len(want)))
            continue
        diff = [_z(g) != _z(w) for g, w in zip(got, want)]
        rr, mdl = p.sat(SymBool(z3.Or(*diff))) if diff else ('unsat', None)
        if rr == 'sat':
            violation('wrong-bytes', p, mdl, 'emitted bytes differ from the UTF-8 encoding of the unescaped text')
        else:
            res.oblig(True if rr == 'unsat' else None, 'unknown string bytes %s' % shape)
    if n_ok == 0:
        res['vacuity'].append('string %s: no accepting path' % shape)
    res['notes'].append('string %s: %d accepting paths compared, %d refusals of well-formed text, %d paths with a malformed escape (outside the claim)' % (shape, n_ok, n_ref, n_mal))
    if x.truncated:
        res.inconc('string %s: path budget exhausted' % shape)
    res.absorb_stats(x.stats)
    res['functions'] = prof.names()
    return res


def symbytes_concrete(data, model):
    out = bytearray()
    for v in symstr._byte_values(data):
        out.append(core.concrete(v, model) & 0xff)
    return bytes(out)


def string_specs(tier):
    shapes = SHAPES_THOROUGH if tier == 'thorough' else SHAPES_QUICK
    return [('harness.strings', 'symstring_task', (name, pre, slots)) for name, (pre, slots) in shapes.items()]


def string_task(tier):
    to = 120 if tier == 'thorough' else 40
    return xhair.xhair_task('C10', 'charlit.py', to, ['string_plain', 'string_plain__mustfail'], ['string_plain'])


# ---------------------------------------------------------------------------
# the same through the whole assemble(): the source is a *file* whose text holds the symbolic characters,
# so the reader (read_lines: line splitting, blank-line test, include detection) is part of what runs
# ---------------------------------------------------------------------------
FILE_SHAPES = {
    # name -> (directive prefix, slots)
    'any1': ('string ', [S]),
    'any2': ('string ', [S, S]),
    'lead': ('string ', [S, 'a']),
    'trail': ('string ', ['a', S]),
    'trail2': ('string ', ['a', 'b', S, S]),
    'indented': ('  string ', [S, S]),
}
ERROR_SHAPES = {
    'any1': ('error ', [S]),
    'any2': ('error ', [S, S]),
    'any3': ('error ', [S, S, S]),
    'word': ('error ', ['n', 'o', ' ', S, S]),
}
TAIL_LINES = ['L1:', 'add x20 x21 x22']
TAIL_BYTES = bytes.fromhex('338a6a01')      # add x20, x21, x22 (checked against the real encoder at start-up)


def symfile_task(kind, shape, prefix, slots):
    """kind 'string': bytes and the label behind the directive; kind 'error' (C15): the refusal is the
    assembler's own error naming the file and line of the directive"""
    prop = 'C10' if kind == 'string' else 'C15'
    tag = 'symfile:%s:%s' % (kind, shape)
    res = TaskResult(tag)
    prof = common.FuncProfile()
    x = core.Explorer(timeout_ms=120000, max_paths=20000)
    real = asmshim.load_asm_pristine()
    assert bytes(real.assemble('add x20 x21 x22')) == TAIL_BYTES
    nsym = sum(1 for s in slots if s is S or s == A)
    n_ok = n_ref = n_mal = 0
    from symx import vfs as vfsmod
    head_lines = ['L0:'] if kind == 'error' else []
    lineno = len(head_lines) + 1

    def fn(p):
        chars = symstr.sym_chars(p, nsym)
        it = iter(chars)
        text = [next(it) if (s is S or s == A) else ord(s) for s in slots]
        for a, b in zip(text, text[1:]):
            p.assume(Not(And(a == 0x5c, b == ord('N'))))
        p.notes['text'] = text
        p.notes['want'] = reference(text)
        v = vfsmod.VFS('/w')
        v.add_dir('/w')
        content = []
        for l in head_lines:
            content += [ord(ch) for ch in l] + [0x0a]
        content += [ord(ch) for ch in prefix] + text + [0x0a]
        for l in TAIL_LINES:
            content += [ord(ch) for ch in l] + [0x0a]
        v.add_symtext('/w/main.asm', SymStr(content))
        asm = asmshim.load_asm_shimmed(v)
        symstr.install(asm)
        labels = {}
        with prof:
            out = asm.assemble('/w/main.asm', labels=labels)
        return out, labels

    def concrete_text(p, mdl):
        return ''.join(chr(core.concrete(c, mdl)) for c in p.notes['text'])

    def real_outcome(txt):
        import os
        import shutil
        import tempfile
        root = tempfile.mkdtemp(prefix='bbverif_')
        try:
            path = os.path.join(root, 'main.asm')
            with open(path, 'w', encoding='utf-8', newline='') as f:
                f.write('\n'.join(head_lines + [prefix + txt] + TAIL_LINES) + '\n')
            labels = {}
            try:
                out = real.assemble(path, labels=labels)
                return ('ok', bytes(out), labels.get('L1'))
            except Exception as e:        # noqa
                line = getattr(e, 'line', None)
                lf = getattr(line, 'file', None)
                return ('exc', type(e).__name__, os.path.basename(lf) if isinstance(lf, str) else lf, getattr(line, 'number', None))
        finally:
            shutil.rmtree(root, ignore_errors=True)

    def expected_ok(txt, r):
        want = reference([ord(ch) for ch in txt])
        if want is None:
            return True
        if kind == 'error':
            return r[0] == 'exc' and r[1] == 'AssemblerError' and r[2] == 'main.asm' and r[3] == lineno
        return r[0] == 'ok' and r[1] == bytes(want) + TAIL_BYTES and r[2] == len(want)

    def violation(vk, p, mdl, what):
        txt = concrete_text(p, mdl)
        r = real_outcome(txt)
        if expected_ok(txt, r):
            res.inconc('%s: counterexample %r for %s did not reproduce on the real code' % (tag, txt, vk))
            return
        detail = '%s; source line %r: real code %s' % (what, prefix + txt, (r[1].hex(), 'L1=%r' % (r[2],)) if r[0] == 'ok' else r[1:])
        path = common.write_replay(prop, tag + '_' + vk, dict(kind='program', property=prop, source='\n'.join(head_lines + [prefix + txt] + TAIL_LINES) + '\n',
                                                               constants={}, what=detail))
        res['violations'].append(dict(harness='symfile', directive=kind, shape=shape, kind=vk, inputs=dict(text=txt), what=detail, replay=path))
        res.oblig(False)

    for p, k, val in x.run(fn):
        if k == 'limit':
            res.inconc('%s: engine limit: %s' % (tag, val))
            continue
        model = p.witness()
        txt = concrete_text(p, model)
        r = real_outcome(txt)
        if k == 'ok':
            out, labels = val
            symc = ('ok', symbytes_concrete(out, model), core.concrete(labels.get('L1'), model))
        else:
            line = getattr(val, 'line', None)
            lf = getattr(line, 'file', None)
            symc = ('exc', type(val).__name__, lf.split('/')[-1] if isinstance(lf, str) else lf, getattr(line, 'number', None))
        if symc != r:
            res.inconc('%s: witness replay mismatch for %r: symbolic %r, real %r' % (tag, txt, symc, r))
            continue
        res['validated'] += 1
        want = p.notes.get('want', 'unset')
        if isinstance(want, str):
            res.inconc('%s: reference not evaluated' % tag)
            continue
        if len(res['samples']) < 2:
            res['samples'].append(dict(source=prefix + txt, outcome=[r[0], r[1].hex() if r[0] == 'ok' else list(r[1:])]))
        if want is None:
            n_mal += 1
            continue
        if kind == 'error':
            n_ref += 1
            if k == 'exc' and symc[1:] == ('AssemblerError', 'main.asm', lineno):
                res.oblig(True)
            else:
                violation('not-an-assembler-error', p, model, 'an error directive did not end in AssemblerError naming its file and line')
            continue
        if k == 'exc':
            n_ref += 1
            violation('refuses-wellformed', p, model, 'a well-formed string was refused (%s)' % type(val).__name__)
            continue
        n_ok += 1
        out, labels = val
        got = symstr._byte_values(out)
        L1 = labels.get('L1')
        if len(got) != len(want) + len(TAIL_BYTES) or isinstance(L1, SymInt) or L1 != len(want):
            violation('length', p, model, 'emitted %d bytes, label L1 at %r, documented %d string bytes' % (len(got), L1, len(want)))
            continue
        diff = [_z(g) != _z(w) for g, w in zip(got, list(want) + list(TAIL_BYTES))]
        rr, mdl = p.sat(SymBool(z3.Or(*diff))) if diff else ('unsat', None)
        if rr == 'sat':
            violation('wrong-bytes', p, mdl, 'emitted bytes differ from the UTF-8 encoding of the unescaped text')
        else:
            res.oblig(True if rr == 'unsat' else None, 'unknown %s' % tag)
        if len(res['violations']) >= 3:
            break
    if n_ok + n_ref == 0:
        res['vacuity'].append('%s: no well-formed path' % tag)
    res['notes'].append('%s: %d accepted, %d refused, %d malformed-escape paths (outside the claim)' % (tag, n_ok, n_ref, n_mal))
    if x.truncated:
        res.inconc('%s: path budget exhausted' % tag)
    res.absorb_stats(x.stats)
    res['functions'] = prof.names()
    return res


def symfile_specs(kind):
    shapes = FILE_SHAPES if kind == 'string' else ERROR_SHAPES
    return [('harness.strings', 'symfile_task', (kind, name, pre, slots)) for name, (pre, slots) in shapes.items()]

"""C10 `string`: escape processing and UTF-8 encoding run through C codecs, which CrossHair
realises; the condition can find counterexamples (it found the mojibake defect in 2 s) but
cannot confirm, so the string sub-claim is bug-hunting only and is reported as such."""
from . import xhair


def string_task(tier):
    to = 120 if tier == 'thorough' else 40
    return xhair.xhair_task('C10', 'charlit.py', to, ['string_plain', 'string_plain__mustfail'], ['string_plain'])

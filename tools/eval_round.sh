#!/bin/bash
# usage: tools/eval_round.sh <letter>   -- evaluates every seeded/cXX-<letter> against its target check (quick tier)
cd "$(dirname "$0")/.."
for n in 01 02 03 04 05 06 07 08 09 10 11 12 13 14 15 16 17 18 19 20; do
  [ -d seeded/c$n-$1 ] && python3 tools/try_seeds.py eval c$n-$1
done

#!/bin/bash
# usage: tools/eval_neutral_targeted.sh   -- after a harness change: each neutral refactoring against the checks the change touches
cd "$(dirname "$0")/.."
run() { python3 tools/try_neutral.py eval "$1" "$2"; }
run M2 C03,C14,C17
run N8 C03,C09,C14,C17
run N5 C03,C14,C17
run M7 C14,C15,C17
run M6 C18,C19
run N6 C18,C19
run M1 C09,C16,C18,C19
run M8 C07,C10
run N7 C09,C10,C16
run N3 C03,C04,C08,C12,C20
run N4 C03,C04,C08,C12,C20
run M5 C03,C04,C05,C08,C12,C20
run M3 C04,C15
run M4 C01,C06,C11
run N1 C01,C06
run N2 C02,C06

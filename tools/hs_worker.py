#!/usr/bin/env python3
"""Replays concrete include-tree settings on a pristine import of /repo under the PYTHONHASHSEED of
this process and prints one JSON list of result digests (used by harness.purity.hashseed_task)."""
import hashlib
import json
import os
import sys

sys.path.insert(0, os.path.dirname(os.path.dirname(os.path.abspath(__file__))))
sys.dont_write_bytecode = True


def main():
    from symx import asmshim
    from harness import include
    jobs = json.load(open(sys.argv[1]))
    real = asmshim.load_asm_pristine()
    out = []
    for j in jobs:
        if 'program' in j:
            labels, consts = {}, dict(j.get('constants') or {})
            try:
                o = asmshim.load_asm_pristine().assemble(j['program'], constants=consts, labels=labels, compress=bool(j.get('compress')))
                out.append(['ok', hashlib.sha1(bytes(o)).hexdigest(), list(labels.items()), sorted((k, v) for k, v in consts.items())])
            except Exception as e:
                out.append(['exc', type(e).__name__, str(getattr(e, 'message', e))[:80]])
            continue
        tree = include.TREES[j['tree']]
        r = include._real_tree(real, tree, j['exists'], j['cwd'], j['idirs'], j['K'])
        if r[0] == 'ok':
            out.append(['ok', hashlib.sha1(r[1]).hexdigest(), sorted(r[2].items())])
        else:
            out.append(['exc', r[1]])
    print(json.dumps(out))


if __name__ == '__main__':
    main()

#!/bin/bash
# every seeded change against every quick check (scratch worktrees, evidence redirected); slow
cd "$(dirname "$0")/.."
for d in seeded/*/; do
  n=$(basename $d)
  [ -f $d/patch.diff ] || continue
  nice -n 10 python3 tools/try_seeds.py eval $n all > /tmp/cross_$n.log 2>&1
  echo "$n done: $(grep -c 'rc=1' /tmp/cross_$n.log) checks report a violation"
done
python3 tools/try_seeds.py table > /dev/null
echo ALL DONE

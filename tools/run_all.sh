#!/bin/bash
# usage: tools/run_all.sh quick|thorough [ids...]   -- runs checks one after another, prints status and wall time
tier=${1:-quick}; shift
ids=${@:-C01 C02 C03 C04 C05 C06 C07 C08 C09 C10 C11 C12 C13 C14 C15 C16 C17 C18 C19 C20}
for p in $ids; do
  s=$(date +%s)
  python3-vt "$(dirname "$0")/../vcheck.py" $p --tier $tier > /tmp/run_all_$p.log 2>&1
  rc=$?
  e=$(date +%s)
  echo "$p rc=$rc wall=$((e-s))s $(tail -1 /tmp/run_all_$p.log | cut -c1-160)"
done

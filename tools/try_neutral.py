#!/usr/bin/env python3
"""Behaviour-preserving refactorings (/verif/neutral/<id>/patch.diff, written by independent sub-agents with a
differential test against the original) must not make any check raise an alarm or become inconclusive.

  tools/try_neutral.py eval <id> [ids|all]    scratch worktree of /repo HEAD + patch: tests, then the quick checks
  tools/try_neutral.py table                  summary of the result files
"""
import json
import os
import shutil
import subprocess
import sys

V = os.path.dirname(os.path.dirname(os.path.abspath(__file__)))
ND = os.path.join(V, 'neutral')
ALL = ['C%02d' % i for i in range(1, 21)]


def sh(cmd):
    return subprocess.run(cmd, shell=True, capture_output=True, text=True)


def main():
    cmd = sys.argv[1]
    if cmd == 'eval':
        name = sys.argv[2]
        ids = sys.argv[3].split(',') if len(sys.argv) > 3 and sys.argv[3] != 'all' else ALL
        d = os.path.join(ND, name)
        wt = '/tmp/neutralwt/' + name
        sh('git -C /repo worktree remove --force %s' % wt)
        os.makedirs('/tmp/neutralwt', exist_ok=True)
        r = sh('git -C /repo worktree add -q --detach %s HEAD' % wt)
        assert r.returncode == 0, r.stderr
        try:
            r = sh('git -C %s apply %s/patch.diff' % (wt, d))
            assert r.returncode == 0, r.stderr
            tests = sh('cd %s && /venv/bin/python -m pytest -q -p no:cacheprovider tests' % wt).stdout.strip().splitlines()[-1]
            rp = os.path.join(d, 'result.json')
            res = json.load(open(rp)) if os.path.exists(rp) else dict(name=name, checks={})
            res['tests'] = tests
            print(name, tests)
            for pid in ids:
                env = dict(os.environ, VERIF_REPO=wt, VERIF_EVIDENCE_DIR='/tmp/neutralev/%s' % name, VERIF_OUT='/tmp/neutralout/%s' % name)
                r = subprocess.run(['python3-vt', os.path.join(V, 'vcheck.py'), pid, '--tier', 'quick'], capture_output=True, text=True, env=env)
                lines = r.stdout.strip().splitlines()
                why = [l for l in lines if l.startswith(('  why', '  detail', 'VACUITY', 'HARNESS'))][:3]
                res['checks'][pid] = dict(rc=r.returncode, tail=lines[-1][:200] if lines else r.stderr[-300:], why=[w[:400] for w in why])
                print('  ', pid, 'rc=%d' % r.returncode, (lines[-1][:150] if lines else ''), ' | '.join(w[:200] for w in why) if r.returncode else '')
                json.dump(res, open(rp, 'w'), indent=1)
        finally:
            sh('git -C /repo worktree remove --force %s' % wt)
            shutil.rmtree('/tmp/neutralev', ignore_errors=True)
            shutil.rmtree('/tmp/neutralout', ignore_errors=True)
    elif cmd == 'table':
        for name in sorted(os.listdir(ND)):
            rp = os.path.join(ND, name, 'result.json')
            if not os.path.exists(rp):
                continue
            r = json.load(open(rp))
            bad = {k: v['rc'] for k, v in sorted(r['checks'].items()) if v['rc'] != 0}
            print('| %s | %s | %d checks run | %s |' % (name, json.load(open(os.path.join(ND, name, 'meta.json'))).get('summary', '')[:140].replace('|', '/'),
                                                   len(r['checks']), ', '.join('%s rc=%d' % kv for kv in bad.items()) or 'all exit 0'))


if __name__ == '__main__':
    main()

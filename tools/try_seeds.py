#!/usr/bin/env python3
"""Evaluate seeded changes (/verif/seeded/<name>/patch.diff) against the checks.

  tools/try_seeds.py import <Cxx> [name]     copy /tmp/seed/<Cxx>/out/* into /verif/seeded/<name>/
  tools/try_seeds.py eval <name> [ids|all]   scratch worktree of /repo HEAD + patch: tests, demo, checks (VERIF_REPO)
  tools/try_seeds.py confirm <name>          apply the patch to /repo itself, run the target check, undo
  tools/try_seeds.py table                   regenerate seeded/README.md from the result files
"""
import json
import os
import shutil
import subprocess
import sys

V = os.path.dirname(os.path.dirname(os.path.abspath(__file__)))
SEEDED = os.path.join(V, 'seeded')
ALL = ['C%02d' % i for i in range(1, 21)]


def sh(cmd, **kw):
    return subprocess.run(cmd, shell=True, capture_output=True, text=True, **kw)


def run_check(pid, repo, tag):
    env = dict(os.environ, VERIF_REPO=repo, VERIF_EVIDENCE_DIR='/tmp/seedev/%s' % tag, VERIF_OUT='/tmp/seedout/%s' % tag)
    r = subprocess.run(['python3-vt', os.path.join(V, 'vcheck.py'), pid, '--tier', 'quick'], capture_output=True, text=True, env=env)
    vio = [l for l in r.stdout.splitlines() if l.startswith('VIOLATION')]
    det = [l for l in r.stdout.splitlines() if l.startswith('  detail:')]
    return dict(rc=r.returncode, violations=len(vio), first=(det[0][:400] if det else ''), tail=r.stdout.strip().splitlines()[-1][:200] if r.stdout.strip() else r.stderr[-300:])


def main():
    cmd = sys.argv[1]
    if cmd == 'import':
        cid = sys.argv[2]
        name = sys.argv[3] if len(sys.argv) > 3 else cid.lower() + '-a'
        src = {'b': '/tmp/seedb/%s/out', 'c': '/tmp/seedc/%s/out', 'd': '/tmp/seedd/%s/out', 'e': '/tmp/seede/%s/out', 'f': '/tmp/seedf/%s/out', 'g': '/tmp/seedg/%s/out', 'h': '/tmp/seedh/%s/out', 'i': '/tmp/seedi/%s/out', 'j': '/tmp/seedj/%s/out', 'k': '/tmp/seedk/%s/out', 'l': '/tmp/seedl/%s/out'}.get(name[-1], '/tmp/seed/%s/out') % cid
        dst = os.path.join(SEEDED, name)
        os.makedirs(dst, exist_ok=True)
        for f in ('patch.diff', 'demo.py', 'meta.json'):
            shutil.copy(os.path.join(src, f), os.path.join(dst, f))
        print('imported', name)
    elif cmd == 'eval':
        name = sys.argv[2]
        d = os.path.join(SEEDED, name)
        meta = json.load(open(os.path.join(d, 'meta.json')))
        target = meta['property']
        ids = sys.argv[3].split(',') if len(sys.argv) > 3 else [target]
        if ids == ['all']:
            ids = ALL
        wt = '/tmp/seedwt/' + name
        sh('git -C /repo worktree remove --force %s' % wt)
        os.makedirs('/tmp/seedwt', exist_ok=True)
        r = sh('git -C /repo worktree add -q --detach %s HEAD' % wt)
        assert r.returncode == 0, r.stderr
        try:
            os.makedirs(wt + '/out', exist_ok=True)
            shutil.copy(d + '/demo.py', wt + '/out/demo.py')      # demos locate the tree relative to their own path
            clean_demo = sh('cd %s && PYTHONPATH=%s /venv/bin/python out/demo.py' % (wt, wt))
            r = sh('git -C %s apply %s/patch.diff' % (wt, d))
            assert r.returncode == 0, r.stderr
            tests = sh('cd %s && /venv/bin/python -m pytest -q -p no:cacheprovider tests' % wt)
            demo = sh('cd %s && PYTHONPATH=%s /venv/bin/python out/demo.py' % (wt, wt))
            res = dict(name=name, property=target, tests=tests.stdout.strip().splitlines()[-1],
                       demo_with_change=demo.returncode, demo_without_change=clean_demo.returncode, checks={})
            print(name, 'tests:', res['tests'], '| demo with change rc=%d, without rc=%d' % (demo.returncode, clean_demo.returncode))
            for pid in ids:
                c = run_check(pid, wt, name + '_' + pid)
                res['checks'][pid] = c
                print('  ', pid, 'rc=%d' % c['rc'], c['violations'], 'violations |', c['first'][:230] or c['tail'])
            old = {}
            rp = os.path.join(d, 'result.json')
            if os.path.exists(rp):
                old = json.load(open(rp)).get('checks', {})
            old.update(res['checks'])
            res['checks'] = old
            json.dump(res, open(rp, 'w'), indent=1)
        finally:
            sh('git -C /repo worktree remove --force %s' % wt)
            shutil.rmtree('/tmp/seedev', ignore_errors=True)
            shutil.rmtree('/tmp/seedout', ignore_errors=True)
    elif cmd == 'confirm':
        name = sys.argv[2]
        d = os.path.join(SEEDED, name)
        meta = json.load(open(os.path.join(d, 'meta.json')))
        assert sh('git -C /repo status --porcelain').stdout.strip() == '', '/repo not clean'
        r = sh('git -C /repo apply %s/patch.diff' % d)
        assert r.returncode == 0, r.stderr
        try:
            t = sh('cd /repo && /venv/bin/python -m pytest -q -p no:cacheprovider tests')
            c = run_check(meta['property'], '/repo', 'confirm_' + name)
            print(name, t.stdout.strip().splitlines()[-1], '|', meta['property'], 'rc=%d' % c['rc'], c['violations'], 'violations', c['first'][:200])
        finally:
            sh('git -C /repo checkout -- .')
            shutil.rmtree('/tmp/seedev', ignore_errors=True)
            shutil.rmtree('/tmp/seedout', ignore_errors=True)
        assert sh('git -C /repo status --porcelain').stdout.strip() == ''
    elif cmd == 'table':
        rows = []
        for name in sorted(os.listdir(SEEDED)):
            rp = os.path.join(SEEDED, name, 'result.json')
            if not os.path.exists(rp):
                continue
            r = json.load(open(rp))
            meta = json.load(open(os.path.join(SEEDED, name, 'meta.json')))
            caught = [k for k, v in sorted(r['checks'].items()) if v['rc'] == 1]
            missed = [k for k, v in sorted(r['checks'].items()) if v['rc'] == 0]
            incon = [k for k, v in sorted(r['checks'].items()) if v['rc'] not in (0, 1)]
            rows.append('| %s | %s | %s | %s | %s | %s |' % (name, r['property'], meta.get('summary', '').replace('|', '/')[:160],
                                                          ', '.join(caught) or '-', ', '.join(missed) or '-', ', '.join(incon) or '-'))
        with open(os.path.join(SEEDED, 'README.md'), 'w') as f:
            f.write('# Seeded changes and what catches them\n\nGenerated by tools/try_seeds.py from actual runs of the quick checks against a scratch worktree of /repo HEAD with the patch applied '
                    '(every patch keeps the 954 tests green; every demo.py fails with the patch and passes without).\n\n'
                    '| seed | breaks | change | checks that report VIOLATION | checks run that stay silent | inconclusive (exit 2) |\n|---|---|---|---|---|---|\n' + '\n'.join(rows) + '\n')
        print('\n'.join(rows))


if __name__ == '__main__':
    main()

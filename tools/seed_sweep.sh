#!/bin/bash
# layout-based checks under several VERIF_SEED values: looks for alarms / inconclusive runs on the unchanged tree
cd "$(dirname "$0")/.."
for sd in ${@:-0 1 2 3 4 5 6 7 8 9}; do
  for p in C03 C08 C09 C04 C12 C20; do
    VERIF_EVIDENCE_DIR=/tmp/sweep_ev VERIF_OUT=/tmp/sweep_out VERIF_SEED=$sd python3-vt vcheck.py $p > /tmp/sweep_${sd}_$p.log 2>&1; rc=$?
    echo "seed=$sd $p rc=$rc $(tail -1 /tmp/sweep_${sd}_$p.log | cut -c1-150)"
    [ $rc -ne 0 ] && grep -E "VIOLATION|why|VACUITY|HARNESS" /tmp/sweep_${sd}_$p.log | head -5
  done
done

#!/usr/bin/env python3
"""Regenerates /verif/MANIFEST.json from the table below."""
import json
import os

HERE = os.path.dirname(os.path.dirname(os.path.abspath(__file__)))

TECH = 'bounded symbolic execution of the real Python functions (symx proxy objects over z3 QF_BV), per-path unsat queries against independent oracles, counterexamples replayed on the pristine import'

CLAIMED = {
    'C01': dict(
        text='Every one of the 66 encoders and the text front end is executed symbolically for all register / immediate values within the stated widths; on every accepting path the word equals the specification field diagram (unsat query), a two-copy query shows the encoding injective, and the 129 register spellings are compared with the ABI table; programs of 5-6 instructions mix alias constants and literal register spellings in every operand position (all registers symbolic) and every word must name the registers of its own line.',
        note='Trusted: spec/isa.py transcription of the ISA listings (validated against the repository test vectors), z3, the environment stubs listed in the evidence. Bound: operand bit-widths in evidence.bounds.',
        ref='6 C01'),
    'C02': dict(
        text='Forward: as C01 for the 27 c.* mnemonics. Reverse: one symbolic 16-bit halfword per class, assumed legal non-hint non-reserved, is decoded with the specification field lists and fed to the real encoder, which must return exactly that halfword; class predicates are shown pairwise disjoint.',
        note='Trusted: spec/isa.py (RVC listings and legality), z3, stubs. Bound: all 65536 halfwords; operand widths in evidence.',
        ref='6 C02'),
    'C06': dict(
        text='For all 93 mnemonics, at encoder level and through one-line programs: every accepting path lies inside the documented operand set (or the CSR don\'t-care band) and every refusing path lies outside it - two unsat queries per path over all operand values within the widths.',
        note='Trusted: documented operand sets written out in DESIGN.md appendix A; z3; stubs.',
        ref='6 C06'),
    'C07': dict(
        text='relocate_hi / relocate_lo / sign_extend executed symbolically for every value within the width: field ranges, recombination modulo 2^32, acceptance by the consuming encoders, and lui/auipc + addi/lw/sw/jalr pairs from whole-pipeline templates with constant, label(+symbolic gap) and %position operands (also operands with grouping of their own such as V + (W << 7), both symbolic) - decoded as words without -c, and *executed* by the reference semantics in both modes (any instruction length, every base register incl. sp), plus hi/lo layout templates around far calls and shrinking li.',
        note='Trusted: z3, stubs. Bound: value width in evidence; the pair templates listed there.',
        ref='6 C07'),
}

CLAIMED.update({
    'C04': dict(
        text='Every 32-bit mnemonic is assembled as a one-instruction program with compression off and on, sharing symbolic operands (constants/aliases and literal numerals). For every jointly feasible pair of paths: a 16-bit result must be a legal non-hint RV32C halfword whose expansion has the same architectural effect (register written, value, memory access, control transfer; link = next instruction) as the 32-bit word for every register file and pc; a result left at 32 bits must be unchanged.',
        note='Trusted: spec/sem.py (RV32 step semantics, RVC expansion/legality), z3, stubs. Bound: single-instruction programs and the layout templates; operand widths in evidence.',
        ref='6 C04'),
    'C05': dict(
        text='Each of the 27 pseudo-instructions is assembled by the real pipeline with symbolic registers, li value (literal and label) and target (label forward/backward over a symbolic gap, in a context of other shrinking pseudo-instructions, or a constant address), both modes; the emitted words are executed by the reference step semantics from an arbitrary register file and even load address and must produce exactly the documented register file and pc (Skolem register index).',
        note='Trusted: spec/sem.py, documented effects (DESIGN.md appendix B), z3, stubs. Bound: li value width, gap size in evidence.',
        ref='6 C05'),
    'C12': dict(
        text='Off/on product with shared symbols: no accepting path of the uncompressed run is jointly satisfiable with a raising path of the compressed run, for all single-instruction programs (constants, aliases, literals in every operand position), the layout templates, and every pseudo-instruction with alias-constant operands. One known finding (F1: a jal exactly at the edge of its reach with an align behind it) is reported as KNOWN-FINDING and matched by cause, see DESIGN.md 9.3.',
        note='Trusted: z3, stubs. Bound: template programs; operand widths / gap sizes in evidence.',
        ref='6 C12'),
    'C20': dict(
        text='For every path of the compressed run that leaves a literal-operand instruction at 32 bits, a quantifier-free eligibility predicate (exists legal non-hint h with expand(h) == word, Skolemised per RVC class) must be unsatisfiable; layout templates additionally compare total length and every label offset in both modes and demand 16 bits for every literal instruction line whose word is eligible; pseudo-instructions with alias-constant operands must assemble with -c.',
        note='Trusted: spec/sem.py expansion table, z3, stubs. Bound: as C04.',
        ref='6 C20'),
})

CLAIMED.update({
    'C03': dict(
        text='Layout templates (curated cases, the adjacency and between families, symbolic alignments, and seeded random programs; branches, j, jal, call, tail, shrinking li, data, aligns, symbolic gaps up to 8 MiB) run through the whole real assemble() in both modes; on every accepting path each transfer is decoded by the reference semantics and must land on the label offset recomputed from the emitted chunks, and the reported label table must equal those offsets; two-call histories that re-use one labels dictionary (same names, also in the opposite order) must give the second program its own offsets; two templates are passed as text with CRLF line ends; the -l file written by the real cli_main() (four programs, two with labels that share an offset) must hold one line per label with that offset.',
        note='Trusted: spec/sem.py decoding, the chunk list seen at resolve_blobs (wrapped from outside), z3, stubs. Bound: the template set (<= 12 lines each), gap sizes, li widths in evidence.',
        ref='6 C03'),
    'C08': dict(
        text='Same templates with %offset, %position, bare labels, %hi/%lo(label) in instructions, li and dw/pack data: the decoded immediate / executed li result / data word equals the value computed from label offsets recomputed from the output, for all gap sizes and base addresses; also when the caller\'s labels dictionary already holds the same names from an earlier program.',
        note='Trusted: as C03.',
        ref='6 C08'),
    'C09': dict(
        text='Kernel: the real Align.resolution_size for symbolic position and each alignment 1..64 and larger constants gives 0 <= pad < N with (pos+pad) % N == 0. Programs: on every path the chunk list is in source order, labels/constants contribute nothing, each item its documented size, each align its minimal zero padding, and the output is exactly the concatenation (data items include native-size pack formats and CRLF text sources); the -o file after re-assembling a shorter program to the same path holds exactly the new bytes.',
        note='Trusted: documented sizes (docs/assembly_language.rst) as read by harness/layout.classify, z3, stubs. Bound: alignments and template set in evidence; symbolic non-power-of-two N inside whole programs only as constants.',
        ref='6 C09'),
})

CLAIMED.update({
    'C10': dict(
        text='db/dh/dw/dd, pack in all 20 format/byte-order combinations and the five sequence directives are assembled with symbolic values (beyond both ends of every width): accepted iff the value fits, bytes equal the little/big-endian two\'s complement of the documented width, and the size used for label layout equals the bytes emitted. include_bytes runs over a virtual file system with symbolic existence bits in source / -i / working directory and a symbolic working directory: the bytes are those of the file the documented search finds. string: the real lexer, parser, String.size and resolve_strings run on text shapes whose characters are symbolic code points (any character of a UTF-8 source line; all one-character, octal, \\x, \\u, \\U escapes), with Python models of the codecs and a symbolic regex matcher, and are compared by the solver with a character-level reference (escape table + RFC 3629); every path is replayed through the real codecs.',
        note='Trusted: z3, stubs (struct.pack contract, virtual file system, codec and regex models - each validated by per-path replay on CPython). Outside: \\N{name}, malformed escapes, text shapes other than those listed in the evidence.',
        ref='6 C10'),
    'C11': dict(
        text='For every operand position of all 93 mnemonics the program written with a constant / register alias and the program written with the literal have the same outcome for all values (off/on); every documented operator is evaluated through the real resolve_constants on a symbolic operand and compared with a 160-bit reference; constants in db..dd and inside %hi/%lo/%position likewise. The 94 printable-ASCII character literals are a finite table compared concretely (plus CrossHair search).',
        note='Trusted: z3, stubs; numeral spellings and operator precedence are CPython\'s (outside the claim). // and % are decided for |A| < 2^23.',
        ref='6 C11'),
    'C13': dict(
        text='Engine E1 on the real lex_tokens: a source line is one of 14 base lines plus a region of symbolic characters - a trailing / tight / whole-line comment of 8 (12) arbitrary characters, comments that start with a directive word, 6 symbolic blanks of indentation, symbolic blanks and commas in every separator run - and the tokens must be those of the base line for every choice (symbolic regex matcher over re._parser trees). CrossHair conditions on the real assemble() of an 11-line program (blank lines, whole-line comments, indentation, trailing comments with symbolic counts at every position), each with a reachability twin; symx product for imm(reg) vs reg, imm on all 11 base+offset mnemonics in both modes; register and numeral spellings as a finite table. CrossHair per-line lexer conditions run as a second engine (a counterexample is a violation, a non-confirmation a note).',
        note='Trusted: z3, the regex / str models of symx/symstr.py (validated per path against CPython), CrossHair 0.0.110 "Confirmed over all paths" for the program-level conditions, stubs. Bound: text lengths, counts and the single program template in evidence.',
        ref='6 C13',
        technique='bounded symbolic execution of the real lexer over symbolic text (symx proxies over z3, symbolic regex matcher) with per-path solver queries; CrossHair symbolic execution with PEP-316 contracts for the program-level conditions; symx/z3 product queries for operand syntax'),
})

CLAIMED.update({
    'C14': dict(
        text='Include trees of depth 2 and 3 over a virtual file system: the included file may exist in any subset of four directories (symbolic bits), the working directory and the -i option are symbolic, an operand inside the files is symbolic. Every path\'s result (bytes, labels, constants) must equal the textually spliced program of a legitimately found candidate, for every working directory; include_bytes settings likewise. Two-call histories (another -i directory, an edited / shadowing / removed nested file, a first call that fails) compare the second call with a fresh process; reference-call scenarios compare a relative with an absolute -i directory, a directory given twice, an includer inside the first -i directory.',
        note='Trusted: z3, stubs (virtual os / open). Precedence between -i and the adjacent directory is left open, as in the property. Bound: the three trees and the scenarios listed in the evidence.',
        ref='6 C14'),
    'C15': dict(
        text='About 80 faulty lines (out-of-range operands with the value symbolic over everything outside the legal set, unknown registers, undefined labels/constants, malformed and non-integer expressions, error directive, missing include files) planted at several positions of a valid program, in an included file, in both modes, with the other operands symbolic: every refusing path must raise AssemblerError carrying exactly that file and line (also in files that begin with blank lines); an error directive whose message is symbolic text; histories in which an included file is removed between two calls.',
        note='Trusted: z3, stubs. A program that is not refused carries no obligation. Bound: the fault list and placements in evidence.',
        ref='6 C15'),
    'C16': dict(
        text='Frame condition (one inductive step): after every path of assemble() on symbolic programs (failing paths included) a structural fingerprint of everything reachable from the module is unchanged and contains no symbolic value. A changed module state counts as a violation only if a probe program then assembles differently than on a fresh import. Two-call products: the second call\'s result equals the result of the second program alone for all values of both programs\' symbols - with fresh dictionaries, with dictionaries passed to the first call only, with no dictionaries at all, with the same dictionary objects for both calls, and with one shared include_dirs list; 21 file-system histories (edited / removed / shadowed / created files, another project with the same source text, a failing first call) compare the second call with the same call in a fresh process.',
        note='Trusted: the fingerprint walks dicts, lists, partials, class dicts, function defaults and closures; z3; stubs. PYTHONHASHSEED: every path witness of the include exploration is replayed in four processes with different hash seeds (differential, not a proof).',
        ref='6 C16'),
})

CLAIMED.update({
    'C17': dict(
        text='The real cli_main() runs in-process over a virtual file system that already holds old output, label and hex files, for combinations of programs (a symbolic operand decides which pass refuses them), -c (symbolic) and the option sets -o/-l/--hex-offset (symbolic value, and invalid spellings)/-i (one, two in non-alphabetical order, repeated)/--include-definitions/-v: on every failing path nothing was opened for writing; on success the -o file holds exactly the assembled byte object, the -l file one "name 0x%08x" line per label carrying that label\'s value, and bin2hex is called with (output, output.hex, offset) after the binary was written; programs with includes must equal the hand-spliced program; the same command line run twice over a changed source (shorter, longer, equal, empty program) leaves exactly the second program in the files.',
        note='Trusted: z3, stubs (virtual os/open, recorder for intelhex.bin2hex, SystemExit observed in-process). The Intel HEX encoding is third-party and not part of the claim.',
        ref='6 C17'),
    'C18': dict(
        text='The real dfu.cli_main() against a DfuSe device model: for each firmware length of the bound, opaque content (questions the code asks about it - trailing zeros, any / all / count / equality with a constant page - are answered by symbolic facts per stretch), symbolic poll timeouts, symbolic busy schedules, symbolic initial error state and flash-size variant, every completed run leaves the modelled flash equal to the zero-padded image, erases before writing, never sends a request while the device is busy, sleeps every requested poll delay (solver query per status response) and stays inside the flash.',
        note='Trusted: the device model (DESIGN.md 4.5), z3, stubs. Bound: firmware lengths are concrete per task (the padding loop concretises them); see evidence.bounds.',
        ref='6 C18'),
    'C19': dict(
        text='Oversize: a symbolic length above capacity (one path per variant covers all oversize lengths) reaches no device request. Error injection: a symbolic error status at a symbolically chosen erase/set-address/write operation: with 0..5 busy polls before the result and a device that may or may not enter dfuERROR: the run must end with a SystemExit message, must not print done!, and must not announce success while a result is outstanding. Concrete lengths just above capacity are refused without any request.',
        note='Trusted: device model, z3, stubs. Bound: images of 1..3 pages for injection.',
        ref='6 C19'),
})

NOT_YET = {}


def main():
    checks = []
    for pid in sorted(CLAIMED):
        c = CLAIMED[pid]
        checks.append(dict(
            property_id=pid,
            quick_cmd='python3-vt /verif/vcheck.py %s --tier quick' % pid,
            thorough_cmd='python3-vt /verif/vcheck.py %s --tier thorough' % pid,
            evidence_file='/verif/evidence/%s.json' % pid,
            replay_cmd_template='python3-vt /verif/vcheck.py replay {path}',
            engine='symx',
            level_claimed=dict(category='model_checking', text=c['text'], design_ref='DESIGN.md section ' + c['ref']),
            level_note=c['note'],
            technique=c.get('technique', TECH),
        ))
    with open(os.path.join(HERE, 'properties.jsonl')) as f:
        allp = [json.loads(l)['id'] for l in f if l.strip()]
    na = [dict(property_id=p, reason=NOT_YET.get(p, 'check not built yet in this round of work; the planned solver-based harness is described in DESIGN.md section 6'))
          for p in allp if p not in CLAIMED]
    man = dict(
        version=1,
        setup_cmd='python3-vt -c "import z3, sys; sys.path.insert(0, \'/verif\'); import symx.core, spec.isa; print(\'symx ok, z3\', z3.get_version_string())"',
        hooks=dict(guard='BRONZEBEARD_VERIF', enable='no source hooks: stubs are assigned into a fresh module object from outside',
                   baseline_off_cmd='cd /repo && /venv/bin/python -m pytest -ra -q -p no:cacheprovider --timeout=900 --continue-on-collection-errors',
                   source_commits=[], add_only=True),
        engines=[dict(name='symx', path='/verif/symx', serves_properties=sorted(CLAIMED),
                      kind_free_text='proxy-object symbolic executor for unmodified Python code over z3 bit-vectors (exact integer semantics by width growth), DFS over feasible paths by re-execution')],
        checks=checks,
        not_applicable=na,
        notes='exit 2 = inconclusive or harness error (never success). Known findings: /verif/known_findings.json.',
    )
    with open(os.path.join(HERE, 'MANIFEST.json'), 'w') as f:
        json.dump(man, f, indent=1)
    print('wrote MANIFEST.json with', len(checks), 'checks,', len(na), 'not_applicable')


if __name__ == '__main__':
    main()

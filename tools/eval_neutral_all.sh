#!/bin/bash
# usage: tools/eval_neutral_all.sh <id> [<id> ...]   -- every listed neutral refactoring against all 20 quick checks
cd "$(dirname "$0")/.."
for n in "$@"; do python3 tools/try_neutral.py eval $n all; done
